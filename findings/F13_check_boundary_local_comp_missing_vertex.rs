// F13 (C04): check_boundary_local_comp(g, v0, v1) read the phase of v0 / v1 before knowing that they exist:
// on the unfixed tree both calls below panic ("index out of bounds" on the vector backend, "Vertex not found" on the hash backend)
// instead of returning false.  Found by Verus: precondition `has(v)` of is_boundary_proper_clifford / is_interior_pauli
// not satisfied at their call sites in check_boundary_local_comp (unit rules).
use quizx::basic_rules::*;
use quizx::graph::*;
use quizx::vec_graph::Graph;
fn main() {
    let mut g = Graph::new();
    let a = g.add_vertex(VType::Z);
    let b = g.add_vertex(VType::Z);
    g.add_edge_with_type(a, b, EType::H);
    assert!(!check_boundary_local_comp(&g, 99, a));
    assert!(!boundary_local_comp(&mut g, 99, a));
    let mut h = quizx::hash_graph::Graph::new();
    let a = h.add_vertex(VType::Z);
    assert!(!check_boundary_local_comp(&h, 99, a));
    println!("ok");
}
