// F25 (C02): Circuit::to_graph_with_options keeps a map qs from qubit labels to positions in graph.outputs(); a SWAP gate only exchanges two
// entries of qs.  At the end the outputs were returned in POSITION order, not in qubit order, so a SWAP (and every gate after it, seen
// from the outputs) was translated as if the qubits had never been exchanged: `swap q0 q1` became the identity diagram, and the library's
// own circuit tensor disagreed with the tensor of its own diagram.  Found by the bounded search to_graph_* (16 of 180 circuits, all with a
// SWAP), written while checking whether C02 could be claimed.
use quizx::circuit::Circuit;
use quizx::tensor::ToTensor;
use quizx::vec_graph::Graph;
fn main() {
    let mut c = Circuit::new(2);
    c.add_gate("swap", vec![0, 1]);
    let g: Graph = c.to_graph();
    assert_eq!(c.to_tensor4(), g.to_tensor4(), "swap");
    let mut c2 = Circuit::new(3);
    c2.add_gate("h", vec![0]); c2.add_gate("swap", vec![0, 2]); c2.add_gate("t", vec![0]); c2.add_gate("cx", vec![2, 1]);
    let g2: Graph = c2.to_graph();
    assert_eq!(c2.to_tensor4(), g2.to_tensor4(), "h; swap; t; cx");
    println!("ok");
}
