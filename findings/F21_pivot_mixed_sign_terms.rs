// F21 (C10, also C01/C04 for parametrised diagrams): pivot_unchecked computed the sign (-1)^((a0 + vars0)(a1 + vars1)) of a pivot between two
// Pauli spiders with phases a0 pi, a1 pi and boolean parities vars0, vars1 from the terms a0*a1 and vars0*vars1 only: the mixed terms
// a0*vars1 and a1*vars0 were missing, so with a pi phase on one vertex and a parity on the other the rewritten diagram has the wrong sign
// under every assignment that makes the parity odd.  Found by the bounded search rules_sound_under_every_assignment (39 of 927 accepted
// rewrites, through pivot, gen_pivot, boundary_pivot, clifford_simp and full_simp).
use num::{Rational64, Zero};
use quizx::basic_rules::*;
use quizx::graph::*;
use quizx::params::Parity;
use quizx::tensor::ToTensor;
use quizx::vec_graph::Graph;
fn instantiate(g: &Graph, b: bool) -> Graph {
    let mut h = g.clone();
    for v in g.vertices() { if !g.vars(v).is_empty() && b { h.add_to_phase(v, Rational64::new(1, 1)); } h.set_vars(v, Parity::zero()); }
    let mut s = *g.scalar();
    for (e, f) in g.scalar_factors() { let holds = e.iter().all(|p| (p.len() == 1 && b) ^ (p.clone() != Parity::new(p.iter().collect::<Vec<u32>>(), false))); if holds { s *= *f; } }
    *h.scalar_mut() = s;
    h
}
fn main() {
    // in -- n0 --h-- v0(pi) --h-- v1(0, parity b0) --h-- n1 -- out
    let mut g = Graph::new();
    let i = g.add_vertex(VType::B); let o = g.add_vertex(VType::B);
    let n0 = g.add_vertex_with_phase(VType::Z, Rational64::new(1, 4));
    let v0 = g.add_vertex_with_phase(VType::Z, Rational64::new(1, 1));
    let v1 = g.add_vertex(VType::Z);
    let n1 = g.add_vertex_with_phase(VType::Z, Rational64::new(1, 4));
    g.set_vars(v1, Parity::single(0));
    g.add_edge(i, n0); g.add_edge_with_type(n0, v0, EType::H); g.add_edge_with_type(v0, v1, EType::H); g.add_edge_with_type(v1, n1, EType::H); g.add_edge(n1, o);
    g.set_inputs(vec![i]); g.set_outputs(vec![o]);
    let mut h = g.clone();
    assert!(pivot(&mut h, v0, v1));
    for b in [false, true] { assert_eq!(instantiate(&g, b).to_tensor4(), instantiate(&h, b).to_tensor4(), "assignment b0 = {b}"); }
    println!("ok");
}
