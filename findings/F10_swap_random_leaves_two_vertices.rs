// Demonstration for finding F10 (C18).  Place as quizx/tests/f10.rs and run `cargo test -p quizx --test f10`.
// Panics on the tree before commit dcc0172 ("Old neighbor 1 not found in node Leaf([0], 1)"), passes after it.
use quizx::graph::{GraphLike, VType};
use quizx::rankwidth::decomp_tree::DecompTree;
use quizx::vec_graph::Graph;
use rand::{rngs::SmallRng, SeedableRng};
#[test]
fn leaf_swap_on_two_vertex_graph_does_not_panic() {
    let mut g = Graph::new();
    let a = g.add_vertex(VType::Z);
    let b = g.add_vertex(VType::Z);
    g.add_edge(a, b);
    let mut rng = SmallRng::seed_from_u64(0);
    let mut t = DecompTree::random_decomp(&g, &mut rng);
    assert!(t.is_valid_for_graph(&g));
    t.swap_random_leaves(&mut rng);
    assert!(t.is_valid_for_graph(&g));
}
