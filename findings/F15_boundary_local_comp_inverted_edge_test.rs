// F15 (C04): check_boundary_local_comp tested `edge_type_opt(v0, v1) != Some(H)`: it accepted exactly the pairs that are NOT joined by a
// Hadamard edge (unconnected, or v1 a boundary vertex on a plain wire) and never a pair the rule is meant for.  In 3000 pseudo-random
// graph-like diagrams the matcher accepted 1956 argument pairs and the rule changed the linear map or panicked in 1951 of them.
// Reachable through the public simplifier local_gslc_simp.  Found by the bounded search rule_boundary_local_comp.
use num::Rational64;
use quizx::basic_rules::*;
use quizx::graph::*;
use quizx::tensor::ToTensor;
use quizx::vec_graph::Graph;
fn main() {
    // input -- v(pi/2) --h-- w(0) --h-- u(pi/4) -- output      v is a boundary proper-Clifford spider, the boundary b is its plain neighbour
    let mut g = Graph::new();
    let b = g.add_vertex(VType::B);
    let v = g.add_vertex_with_phase(VType::Z, Rational64::new(1, 2));
    let w = g.add_vertex_with_phase(VType::Z, Rational64::new(0, 1));
    let u = g.add_vertex_with_phase(VType::Z, Rational64::new(1, 4));
    let o = g.add_vertex(VType::B);
    g.add_edge_with_type(b, v, EType::N);
    g.add_edge_with_type(v, w, EType::H);
    g.add_edge_with_type(w, u, EType::H);
    g.add_edge_with_type(u, o, EType::N);
    g.set_inputs(vec![b]);
    g.set_outputs(vec![o]);
    let before = g.to_tensor4();
    // the boundary vertex b must never be accepted as the "interior Pauli" partner
    assert!(!check_boundary_local_comp(&g, v, b));
    // whatever is accepted must keep the map
    for x in 0..6 { for y in 0..6 {
        let mut h = g.clone();
        if boundary_local_comp(&mut h, x, y) { assert_eq!(h.to_tensor4(), before, "accepted at ({x}, {y}) but the map changed"); } else { assert_eq!(h, g); }
    } }
    println!("ok");
}
