// Demonstration for finding F12 (C07).  Place as quizx/tests/f12.rs and run `cargo test -p quizx --test f12`.
// Panics on the tree before the fix ("called `Result::unwrap()` on an `Err` value: DyadicExponentOverflowError"), passes after it.
use quizx::scalar::*;
#[test]
fn small_normal_floats_round_trip() {
    for f in [-2.5e-300f64, 1e-290, 3e-305, f64::MIN_POSITIVE] {
        let z = Scalar4::real(f).complex_value();
        assert_eq!(z.re, f);
        assert_eq!(f64::try_from(Dyadic::from(f)), Ok(f));
    }
}
