// F19 (C01): fuse_gadgets took each end of the scalar pair Z(0) --h-- Z(0) for a phase gadget hanging off the other end (a "hub" of
// degree 1), filed both under the empty neighbourhood, removed both and then touched a removed vertex: panic "Vertex not found".
// Found by the bounded search simp_fuse_gadgets (scale 10).
use quizx::graph::*;
use quizx::simplify::*;
use quizx::tensor::ToTensor;
use quizx::vec_graph::Graph;
fn main() {
    let mut g = Graph::new();
    let (a, b) = (g.add_vertex(VType::Z), g.add_vertex(VType::Z));
    g.add_edge_with_type(a, b, EType::H);
    let before = g.to_tensor4();
    fuse_gadgets(&mut g);
    assert_eq!(g.to_tensor4(), before);
    println!("ok");
}
