// F14 (C04): check_remove_duplicate(g, v, v) accepted a vertex paired with itself (inc0 == inc1 trivially) and
// remove_duplicate_unchecked(g, v, v) then deleted v: the linear map changed.  Found by the bounded search rule_remove_duplicate
// (equal arguments are part of every argument sweep); pointed out independently by a seeding sub-agent.
use num::Rational64;
use quizx::basic_rules::*;
use quizx::graph::*;
use quizx::tensor::ToTensor;
use quizx::vec_graph::Graph;
fn main() {
    let mut g = Graph::new();
    let a = g.add_vertex_with_phase(VType::Z, Rational64::new(1, 4));
    let b = g.add_vertex_with_phase(VType::Z, Rational64::new(1, 1));
    let c = g.add_vertex_with_phase(VType::Z, Rational64::new(1, 1));
    let o = g.add_vertex(VType::B);
    g.add_edge_with_type(b, c, EType::H);
    g.add_edge_with_type(b, o, EType::N);
    g.add_edge_with_type(a, c, EType::H);
    g.set_outputs(vec![o]);
    let before = g.to_tensor4();
    assert!(!check_remove_duplicate(&g, c, c), "a vertex is not its own duplicate");
    let mut h = g.clone();
    assert!(!remove_duplicate(&mut h, c, c));
    assert_eq!(h.to_tensor4(), before);
    println!("ok");
}
