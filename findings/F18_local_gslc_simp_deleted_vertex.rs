// F18 (C01): local_gslc_simp(g, vs) iterated over the listed vertices without checking that an earlier step had not removed them:
// `g.neighbor_vec(v)` on a removed vertex panics ("Vertex not found").  91 of 150 small diagrams panicked when every vertex is listed.
// Found by the bounded search simp_local_gslc_simp_everywhere.
use num::Rational64;
use quizx::graph::*;
use quizx::simplify::*;
use quizx::tensor::ToTensor;
use quizx::vec_graph::Graph;
fn main() {
    let mut g = Graph::new();
    let ph = [(0, 1), (0, 1), (1, 4), (0, 1), (1, 4)];
    let v: Vec<usize> = ph.iter().map(|&(n, d)| g.add_vertex_with_phase(VType::Z, Rational64::new(n, d))).collect();
    let (i, o) = (g.add_vertex(VType::B), g.add_vertex(VType::B));
    for (a, b, h) in [(0, 1, true), (1, 2, true), (3, 4, true)] { g.add_edge_with_type(v[a], v[b], if h { EType::H } else { EType::N }); }
    g.add_edge_with_type(v[0], i, EType::N); g.add_edge_with_type(v[0], o, EType::H);
    g.set_inputs(vec![i]); g.set_outputs(vec![o]);
    let before = g.to_tensor4();
    let vs = g.vertex_vec();
    local_gslc_simp(&mut g, vs);
    assert_eq!(g.to_tensor4(), before);
    println!("ok");
}
