// F20 (C01): fuse_gadgets keyed a gadget by the Z-spiders-behind-Hadamard-wires among the hub's neighbours and silently SKIPPED every other
// neighbour, so a hub that is also wired to a boundary (or to an X spider, or by a plain wire) was fused with a gadget on the same Z
// neighbourhood: the linear map changed.  Reachable through full_simp (1 of 6000 random diagrams).  Found by the bounded search
// simp_fuse_gadgets / simp_full_simp (scale 40).
use num::Rational64;
use quizx::graph::*;
use quizx::simplify::*;
use quizx::tensor::ToTensor;
use quizx::vec_graph::Graph;
fn main() {
    // vertices [0:Z(3/4) 1:Z(0) 2:Z(1) 3:Z(0) 4:Z(0) 5:Z(1/4) 6:B 7:B 8:B] edges [0-1h 0-7 1-3h 1-4h 1-8 2-3h 3-6h 4-5h] inputs [6, 7] outputs [8]
    let mut g = Graph::new();
    let ph = [(3, 4), (0, 1), (1, 1), (0, 1), (0, 1), (1, 4)];
    let v: Vec<usize> = ph.iter().map(|&(n, d)| g.add_vertex_with_phase(VType::Z, Rational64::new(n, d))).collect();
    let b: Vec<usize> = (0..3).map(|_| g.add_vertex(VType::B)).collect();
    for (x, y) in [(0, 1), (1, 3), (1, 4), (2, 3), (4, 5)] { g.add_edge_with_type(v[x], v[y], EType::H); }
    g.add_edge_with_type(v[0], b[1], EType::N); g.add_edge_with_type(v[1], b[2], EType::N); g.add_edge_with_type(v[3], b[0], EType::H);
    g.set_inputs(vec![b[0], b[1]]); g.set_outputs(vec![b[2]]);
    let before = g.to_tensor4();
    fuse_gadgets(&mut g);
    assert_eq!(g.to_tensor4(), before, "hub 3 is wired to a boundary: its gadget must not be fused with the gadget on hub 4");
    println!("ok");
}
