// Demonstration for finding F9 (C07).  Place as quizx/tests/f9.rs and run `cargo test -p quizx --test f9`.
// Fails on the tree before commit 859660f ("z = Scalar4([0, 0, 0, 0]) approx=false"), passes after it.
use quizx::scalar::*;
#[test]
fn approx_zero_times_exact_is_flagged() {
    // x = 2^100 + 1 needs 101 bits: stored as 2^100, flagged approximate
    let x = Scalar4::new([1, 0, 0, 0], 100) + Scalar4::one();
    assert!(x.approx());
    // y = x - 2^100: stored 0, flagged approximate (its true value is 1)
    let y = x - Scalar4::new([1, 0, 0, 0], 100);
    assert!(y.approx());
    // z = y * 5: true value 5
    let z = y * Scalar4::from(5);
    // honest flag: either flagged, or exactly 5
    assert!(z.approx() || z == Scalar4::from(5), "unflagged result {z:?} differs from the exact value 5");
}
