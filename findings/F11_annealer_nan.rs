// Demonstration for finding F11 (C18).  Place as quizx/tests/f11.rs and run `cargo test -p quizx --test f11`.
// Panics on the tree before commit 6190926 ("p=NaN is outside range [0.0, 1.0]"), passes after it.
use quizx::graph::{GraphLike, VType};
use quizx::rankwidth::annealer::RankwidthAnnealer;
use quizx::vec_graph::Graph;
use rand::{rngs::SmallRng, SeedableRng};
#[test]
fn annealer_on_edgeless_graph_does_not_panic() {
    let mut g = Graph::new();
    for _ in 0..6 { g.add_vertex(VType::Z); }           // every cut has rank 0: best score 0
    for seed in 0..20 {
        let mut ann = RankwidthAnnealer::new(g.clone(), SmallRng::seed_from_u64(seed));
        ann.set_iterations(200);
        let t = ann.run();
        assert!(t.is_valid_for_graph(&g));
    }
}
