// F24 (C01): fuse_gadgets collected all gadget groups first and then fused them one after the other; when the hubs fused (removed) in one
// group are the targets of another group, the second group still used the stale number of targets `vs.len()` in its scalar
// sqrt2^(-(num-1)(degree-1)).  K_{2,2} of phase-free gadget hubs, each with a T-like leaf: tensor -1 before, -1/sqrt2 after.
// Reported by a seeding sub-agent as a side finding; reproduced by the bounded search simp_fuse_gadgets once the "gadget farm" family
// (hubs of hubs) was added (6 of 678 diagrams).
use quizx::graph::*;
use quizx::simplify::*;
use quizx::tensor::ToTensor;
use quizx::vec_graph::Graph;
fn main() {
    let mut g = Graph::new();
    let hubs: Vec<V> = (0..4).map(|_| g.add_vertex(VType::Z)).collect();
    for &w in &hubs[0..2] { for &a in &hubs[2..4] { g.add_edge_with_type(w, a, EType::H); } }
    for (i, &h) in hubs.iter().enumerate() {
        let l = g.add_vertex_with_phase(VType::Z, (1 + 2 * (i as i64 % 2), 4));
        g.add_edge_with_type(h, l, EType::H);
    }
    let before = g.to_tensor4();
    while fuse_gadgets(&mut g) {}
    assert_eq!(g.to_tensor4(), before);
    println!("ok");
}
