// F16 / F17 (C04): check_gadget_fusion never looked at the types of v0 and v1 themselves, and accepted two "hubs" that are each
// other's degree-1 phase leaf.  (F16) two BOUNDARY vertices, each on a Hadamard wire to a degree-1 Z spider, were accepted as a gadget
// pair and gadget_fusion_unchecked panicked ("Vertex not found"); (F17) two phase-free Z spiders joined by one Hadamard wire and nothing
// else were accepted and the checked rule panicked.  Found by the bounded search rule_gadget_fusion (scale 5 and 25).
use num::Rational64;
use quizx::basic_rules::*;
use quizx::graph::*;
use quizx::vec_graph::Graph;
fn main() {
    let mut g = Graph::new();
    let a = g.add_vertex_with_phase(VType::Z, Rational64::new(-1, 2));
    let z = g.add_vertex(VType::Z);
    let o1 = g.add_vertex(VType::B);
    let o2 = g.add_vertex(VType::B);
    g.add_edge_with_type(a, o2, EType::H);
    g.add_edge_with_type(z, o1, EType::H);
    g.set_outputs(vec![o1, o2]);
    assert!(!check_gadget_fusion(&g, o1, o2), "boundary vertices are not gadget hubs");
    let mut h = Graph::new();
    let p = h.add_vertex(VType::Z);
    let q = h.add_vertex(VType::Z);
    h.add_edge_with_type(p, q, EType::H);
    assert!(!check_gadget_fusion(&h, p, q), "two leaves joined to each other are not a gadget pair");
    assert!(!gadget_fusion(&mut h, p, q));
    println!("ok");
}
