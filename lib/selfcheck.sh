#!/bin/sh
# selfcheck.sh: cheap consistency checks to run before every commit of /verif
cd /verif || exit 1
python3 -c "import sys; sys.path.insert(0,'lib'); import props, notapplicable, check, search, vunit" || { echo "python import failed"; exit 1; }
python3 lib/mkmanifest.py > /dev/null || exit 1
python3-vt -c "
import json,jsonschema
jsonschema.validate(json.load(open('/verif/MANIFEST.json')), json.load(open('/root/.vp/MANIFEST.schema.json')))
import glob
s=json.load(open('/root/.vp/EVIDENCE.schema.json'))
for f in glob.glob('/verif/evidence/*.json'): jsonschema.validate(json.load(open(f)), s)
json.load(open('/verif/known_findings.json'))
print('selfcheck ok')" || exit 1
git -C /repo status --short | grep -q . && { echo "WARNING: /repo working tree not clean"; }
[ "$(git -C /repo worktree list | wc -l)" = "1" ] || echo "WARNING: stray worktrees"
exit 0
