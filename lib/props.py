"""property -> units.  Each Verus unit is units/<name>.vspec; each Kani unit is kani/<name>.rs appended to `file`."""

DYADIC_HARNESSES = [
    'new_exact_wf', 'from_i64_exact', 'from_f64_faithful', 'zero_is_zero', 'flag_accessors', 'neg_contract',
    'add_contract', 'sub_contract', 'add_assign_sub_assign_agree', 'mul_contract', 'mul_error_bound',
    'cmp_is_real_order', 'cmp_matches_exact_difference', 'abs_diff_eq_contract', 'val_and_exp_contract',
    'known_finding_val_and_exp_64bit',
]

SCALAR4_HARNESSES = ['zero_one_tests', 'from_phase_pi4_is_omega_power', 'minus_one_and_one_plus_phase']

PROPS = {
    'C16': {
        'level': 'proof',
        'level_text': 'machine-checked contracts (Verus) on the extracted real text of phase.rs: canonical representative in (-1,1], arithmetic agrees with rationals mod 2, classification depends only on the class; for all inputs in the stated no-overflow range',
        'level_note': 'assumed contracts for num::Ratio<i64> (stub), i64::rem_euclid/abs; uniqueness of reduced fractions as an axiom; see evidence trusted_base/assumptions',
        'technique': 'Verus contracts (requires/ensures/decreases + lemmas over reals mod 2) on mechanically extracted functions of phase.rs',
        'verus': ['phase'],
        'assumptions': [
            'num::rational::Ratio<i64> is replaced by a signature-compatible stub whose contracts restate num-rational 0.4.2 (new reduces, denominators positive, + - * exact) under explicit no-overflow preconditions',
            'textbook fact: a rational has a unique reduced representation with positive denominator (axiom_reduced_unique)',
            'i64::rem_euclid and i64::abs have their mathematical meaning',
        ],
        'supported_range': ['Phase::new / arithmetic: operands reduced (the invariant of Ratio), 2*denominator and the cross products of the operation fit i64'],
        'not_covered': ['from_f64 / to_f64 round trip (floating point)', 'Mul<Phase>, Div (not in the statement)'],
    },
    'C07': {
        'level': 'proof',
        'level_text': 'contract harnesses proved by Kani/CBMC over the full 64-bit symbolic domain of the loop-free Dyadic code (complete, not bounded): representation invariant, exact-or-flagged results, order, signed views, conversions',
        'level_note': 'supported exponent range |exp| < 2^29; CBMC bit-precise semantics + kissat; one open known finding (F8) carved out of val_and_exp; see evidence',
        'technique': 'Kani contract harnesses (complete, loop-free, full 64-bit domain) on the real dyadic.rs',
        'verus': ['scalar'],
        'kani': [{'unit': 'dyadic', 'file': 'quizx/src/scalar/dyadic.rs',
                  'extra_units': [('scalar4', 'quizx/src/scalar/dyadic.rs')],
                  'harnesses': DYADIC_HARNESSES + SCALAR4_HARNESSES,
                  # exact_phase_and_sqrt2_pow multiplies by sqrt2 on one path: 6-25 min of CBMC per harness, thorough tier only
                  'thorough_harnesses': ['add_error_bound', 'exact_phase_recognition', 'exact_phase_recognition_one_coeff', 'exact_phase_recognition_pow2_coeffs'],
                  'bounded': ['exact_phase_recognition_pow2_coeffs'],
                  'timeout': 7200,
                  'finding_harnesses': {'known_finding_val_and_exp_64bit': 'F8'}}],
        'assumptions': [
            'exponents restricted to |exp| < 2^29 (supported range: keeps exp+-64 and exp+exp inside i32)',
            'Dyadic::new(i64::MIN, _) excluded: `-val` overflows (debug-build panic)',
            'Kani/CBMC bit-precise semantics of the compiled MIR; kissat as SAT back end',
        ],
        'supported_range': ['|exp| < 2^29', 'val > i64::MIN for Dyadic::new / From<i64>'],
        'not_covered': ['complex_value() / f64::try_from accuracy (floating point; CBMC models powi nondeterministically)'],
    },
    'C10': {
        'level': 'proof',
        'level_text': 'machine-checked contracts (Verus) on the extracted real text of params.rs: Parity addition denotes XOR under every assignment and keeps the sorted normal form, is_one is exactly "constant 1", Expr::quadratic denotes the conjunction; unbounded in the number of variables. The rule/simplifier part of the statement is not covered (stated in evidence.not_covered)',
        'level_note': 'assumed: Vec/array -> Box<[u32]> conversions keep elements; derived PartialEq is structural; derived Ord uninterpreted; sortedness is a precondition',
        'technique': 'Verus contracts with a loop invariant over all assignments on mechanically extracted functions of params.rs',
        'verus': ['params'],
        'assumptions': [
            'Vec<u32> -> Box<[u32]>, [u32; N] -> Box<[u32]> and Box<[u32]>::clone keep the elements in order (stubs vec_into_boxed / arr1_into_boxed / arr0_into_boxed / boxed_clone)',
            '#[derive(PartialEq)] on Parity is structural equality; the derived ordering is left uninterpreted (the proof of Expr::quadratic holds for every ordering)',
            'the representation invariant `strictly sorted variable list` is a precondition: Parity::new and From<Vec<Var>> do not establish it (the latter sorts but keeps duplicates) and are not under contract',
        ],
        'supported_range': ['|a| + |b| <= usize::MAX for a + b (Vec::with_capacity argument)'],
        'not_covered': [
            'use of variables inside rewrite rules, simplifiers and the Measure translation ("same linear map under every assignment" is a diagram-semantics claim, see C01)',
            'scalar-factor tables keyed by Expr (FxHashMap, no specification)',
        ],
    },
    'C15': {
        'level': 'proof',
        'level_text': 'machine-checked contracts (Verus) on the extracted real text of gate.rs and circuit.rs: Gate::adjoint against the inverse-gate table and involution, Circuit::adjoint = reverse then adjoint each gate, double reverse/adjoint = identity, push_basic_gates/to_basic_gates produce exactly num_basic_gates() gates in the standard recipes (CCZ recipe proved equal to CCZ on every computational basis state), all basic and on the gate\'s own qubits, +/+= concatenate, CircuitStats partitions the gates; for circuits of any length and parity-phase gates of any arity',
        'level_note': 'assumed: derived Clone of Gate/Circuit/Parity is structural; VecDeque make_contiguous().reverse(), extend(iter().cloned()) and IterMut order (stubs/rewrites R6, R11); gate matrices in the computational basis (CNOT, T, Tdg, CCZ) and Toffoli = H CCZ H, parity-phase = CNOT ladder are textbook facts; Phase contracts are re-verified in the same file (unit phase included)',
        'technique': 'Verus contracts with loop invariants on mechanically extracted functions of gate.rs/circuit.rs, plus a symbolic-execution lemma for the CCZ recipe',
        'verus': ['circuit'],
        'assumptions': [
            '#[derive(Clone)] on Gate, Circuit, Parity produces structurally equal values (stub Clone impls)',
            'VecDeque::make_contiguous().reverse() reverses the deque; VecDeque::extend(iter().cloned()) appends clones in order; `for g in &mut deque` visits slots 0..len in order (stubs vecdeque_reverse / vecdeque_extend_cloned, rewrite R11)',
            'textbook gate semantics: CNOT(c,t)|x> = |x, x_t ^= x_c>, T|x> = w^{x_q}|x>, Tdg = T^-1, CCZ|x> = w^{4 x0 x1 x2}|x>; Toffoli = H_t CCZ H_t; parity-phase gadget = CNOT ladder + Z-phase + ladder undone; inverse of each single gate kind as in is_adjoint_of',
            'the capacity hint `iter().map(num_basic_gates).sum()` is replaced by an unspecified usize (only passed to VecDeque::with_capacity)',
            'everything assumed by unit phase (C16) for num::Ratio',
        ],
        'supported_range': ['2 * qs.len() <= usize::MAX', 'phases with 2*denominator <= i64::MAX for adjoint (the *= -1 renormalises)', 'CCZ/TOFF gates have at least 3 qubit arguments (otherwise the code panics on qs[2]: precondition, reported)'],
        'not_covered': [
            '"appending the adjoint gives the identity map" beyond the per-gate inverse table (matrix semantics of H/X-phase mixtures is not modelled)',
            'parity-phase ladder and Toffoli are pinned structurally to the standard recipe, their unitary semantics is the stated textbook fact',
            'Circuit += with different qubit counts is accepted by the code (no check, unlike +): recorded, not a violation of the statement',
        ],
    },
    'C17': {
        'level': 'proof',
        'level_text': 'machine-checked contracts (Verus) on the extracted real text of linalg.rs: row/column operations have their exact effect; gauss_helper (hence gauss, gauss_x, rank) returns, for every block size >= 1 and both reduction modes, an echelon (fully reduced echelon) form with `rank` pivots in the reported strictly increasing columns and all other rows zero, reached from the input by additions of one row to a different row, and the proxy receives exactly the same sequence; inverse returns Some(inv) only with inv * self = I and None only for a non-square matrix or one whose reduced form has a zero row; panic-freedom of every index and subtraction; unbounded in the matrix size',
        'level_note': 'assumed: FxHashMap get/insert ("get returns a previously inserted value"), slice::to_vec, cmp::min, slice::swap, derived Clone, Mat2::id (built by closures + collect); textbook: row additions preserve the row space, echelon pivots = rank, a left inverse of a square matrix is two-sided; entries are 0/1 (precondition)',
        'technique': 'Verus contracts with loop invariants and a ghost row-operation log on mechanically extracted functions of linalg.rs',
        'verus': ['linalg'],
        'assumptions': [
            'FxHashMap<Vec<u8>, usize>: `get` returns only values inserted earlier (stub ChunkMap); which key a row was filed under is irrelevant to the proof',
            '`ch.iter().all(|&x| x == 0)` is replaced by a function with an unspecified boolean result (the proof holds for either answer)',
            'slice::to_vec copies, std::cmp::min is the minimum, slice::swap swaps, #[derive(Clone)] is structural, Mat2::id(n) is the n x n identity (Mat2::build uses closures + iterator collect, whose results Verus leaves unspecified)',
            'matrix entries are 0 or 1 (bits(m)) and all rows have equal length (rect(m)): preconditions — Mat2::new does not enforce either',
            'textbook facts: adding one row to a different row is invertible and preserves the row space; an echelon form with k pivots has rank k; a left inverse of a square matrix over a field is a two-sided inverse',
        ],
        'supported_range': ['blocksize >= 1 (blocksize 0 divides by zero in the code: precondition)', 'cols + blocksize <= usize::MAX', 'pivot_cols passed empty (all callers pass vec![])'],
        'not_covered': [
            'nullspace (peekable / enumerate().rev() iterator pipelines are outside the Verus subset; Kani cannot hold a 2x2 elimination)',
            'transpose, Mul, build/zeros/ones/id/unit_vector (closures + collect: results unspecified in Verus), vstack/hstack (assert_eq! formatting, Vec::extend), weight/row_weight/unit_rows (iterator sums)',
            'the algebraic laws of transpose / stacking / multiplication',
        ],
    },
    'C18': {
        'level': 'proof',
        'level_text': 'partial: the pointer surgery of the annealer moves is proved for trees of any size — swap_subtrees and move_subtree (Verus, on the extracted real text) keep the node array a symmetric, loop-free, duplicate-free adjacency structure with every node keeping its kind and every leaf its vertex label, with the new adjacency relation stated for every pair; their three leaf helpers replace_neighbor / other_neighbor / parent are proved by Kani over all symbolic nodes (complete). The cached-rank and annealer clauses are not covered',
        'level_note': 'the Verus contracts of replace_neighbor/other_neighbor are assumed there and proved by the Kani harnesses of the same name; the tree-shape facts a call site must supply (no triangle / no chord, path of >= 4 distinct nodes) are preconditions; connectivity/acyclicity, the rank cache, random_decomp and the annealer are not under contract',
        'technique': 'Verus contracts on swap_subtrees/move_subtree over Kani-proved leaf contracts (replace_neighbor, other_neighbor)',
        'verus': ['decomp'],
        'kani': [{'unit': 'decomp', 'file': 'quizx/src/rankwidth/decomp_tree.rs',
                  'harnesses': ['replace_neighbor_contract', 'other_neighbor_contract', 'parent_and_kind_contract']}],
        'assumptions': [
            'cross-tool link: the Verus stubs of DecompNode::replace_neighbor / other_neighbor carry the abstract reading of what the Kani harnesses replace_neighbor_contract / other_neighbor_contract prove on the real code',
            'the rank cache (FxHashMap) is replaced by an opaque placeholder type: swap_subtrees / move_subtree do not touch it',
            'preconditions swap_ok / move_ok: facts that hold at the call sites because the structure is a tree (no triangle, no chord, distinct path nodes); they are stated, not proved for the callers',
        ],
        'supported_range': ['swap_subtrees with two different parents (the shared-parent case p1 == p2 of swap_random_leaves is not covered)', 'move_subtree on a path of at least 4 nodes (as move_random_subtree guarantees)'],
        'not_covered': [
            'cached rank = recomputed rank (bitgauss rank, DFS partition with FnMut closures, FxHashMap cache)',
            'connectivity / acyclicity of the tree (global), leaves = graph vertices for random_decomp',
            'annealer result (floating point, RNG)',
            'swap_subtrees with a shared parent',
        ],
    },
    'C19': {
        'level': 'proof',
        'level_text': 'partial: with the random number generator as an arbitrary oracle (stronger than "for all seeds"), Verus proves on the extracted real text of generate.rs that random_ccz appends exactly one CCZ on three different qubits of the first half, random_clifford_layer appends exactly clifford_depth Z/CZ gates on different in-range qubits, and RandomCircuitBuilder::build returns at most depth gates of kinds CNOT/CZ/H/S/T on different qubits below the qubit count, without panicking (index shifting for distinct qubits). Reproducibility, the hidden-shift promise and the Pauli-gadget builder are covered only by the bounded search; stabiliser-state norm not at all',
        'level_note': 'assumed: StdRng::random_range(a..b) returns a value in [a,b) and panics only on an empty range; f32 arithmetic replaced by uninterpreted functions; Gate/Circuit contracts re-verified in the same file (unit circuit included)',
        'technique': 'Verus contracts on generator functions of generate.rs with the RNG stubbed as an arbitrary oracle',
        'verus': ['generate'],
        'assumptions': [
            'rand::rngs::StdRng is replaced by an oracle stub: random_range(a..b) in [a, b) (precondition a < b, the only panic), random_bool / random::<f32>() arbitrary',
            'f32 `+=` and `<` are replaced by uninterpreted functions (Verus has no float theory): the clause "gate kinds with non-zero probability only" is therefore NOT proved, only "kinds from the configured set"',
            'everything assumed by units circuit and phase',
        ],
        'supported_range': ['random_ccz: qubits/2 >= 3 (hidden shift requires qubits >= 6)', 'random_clifford_layer: qubits/2 >= 2', 'RandomCircuitBuilder::build: qubits >= 2 or depth == 0 (qubits == 1 makes random_range(0..0) panic: weakest precondition, reported)'],
        'not_covered': [
            'reproducibility (a two-run relational property; holds if StdRng is deterministic — bounded search only)',
            'hidden-shift promise and unit norm of stabiliser states (quantum semantics — bounded search for the former, nothing for the latter)',
            'RandomPauliGadgetCircuitBuilder::build (collect / sort / swap_remove pipelines — bounded search only), SurfaceCodeCircuitBuilder',
        ],
    },
}
