"""property -> units.  Each Verus unit is units/<name>.vspec; each Kani unit is kani/<name>.rs appended to `file`."""

DYADIC_HARNESSES = [
    'new_exact_wf', 'from_i64_exact', 'from_f64_faithful', 'zero_is_zero', 'flag_accessors', 'neg_contract',
    'add_contract', 'sub_contract', 'add_assign_sub_assign_agree', 'mul_contract', 'mul_error_bound',
    'cmp_is_real_order', 'cmp_matches_exact_difference', 'abs_diff_eq_contract', 'val_and_exp_contract',
    'known_finding_val_and_exp_64bit',
]

PROPS = {
    'C16': {
        'level': 'proof',
        'verus': ['phase'],
        'assumptions': [
            'num::rational::Ratio<i64> is replaced by a signature-compatible stub whose contracts restate num-rational 0.4.2 (new reduces, denominators positive, + - * exact) under explicit no-overflow preconditions',
            'textbook fact: a rational has a unique reduced representation with positive denominator (axiom_reduced_unique)',
            'i64::rem_euclid and i64::abs have their mathematical meaning',
        ],
        'supported_range': ['Phase::new / arithmetic: operands reduced (the invariant of Ratio), 2*denominator and the cross products of the operation fit i64'],
        'not_covered': ['from_f64 / to_f64 round trip (floating point)', 'Mul<Phase>, Div (not in the statement)'],
    },
    'C07': {
        'level': 'proof',
        'verus': [],
        'kani': [{'unit': 'dyadic', 'file': 'quizx/src/scalar/dyadic.rs', 'harnesses': DYADIC_HARNESSES,
                  'thorough_harnesses': ['add_error_bound'],
                  'finding_harnesses': {'known_finding_val_and_exp_64bit': 'F8'}}],
        'assumptions': [
            'exponents restricted to |exp| < 2^29 (supported range: keeps exp+-64 and exp+exp inside i32)',
            'Dyadic::new(i64::MIN, _) excluded: `-val` overflows (debug-build panic)',
            'Kani/CBMC bit-precise semantics of the compiled MIR; kissat as SAT back end',
        ],
        'supported_range': ['|exp| < 2^29', 'val > i64::MIN for Dyadic::new / From<i64>'],
        'not_covered': ['complex_value() / f64::try_from accuracy (floating point; CBMC models powi nondeterministically)'],
    },
    'C10': {
        'level': 'proof',
        'verus': ['params'],
        'assumptions': [
            'Vec<u32> -> Box<[u32]>, [u32; N] -> Box<[u32]> and Box<[u32]>::clone keep the elements in order (stubs vec_into_boxed / arr1_into_boxed / arr0_into_boxed / boxed_clone)',
            '#[derive(PartialEq)] on Parity is structural equality; the derived ordering is left uninterpreted (the proof of Expr::quadratic holds for every ordering)',
            'the representation invariant `strictly sorted variable list` is a precondition: Parity::new and From<Vec<Var>> do not establish it (the latter sorts but keeps duplicates) and are not under contract',
        ],
        'supported_range': ['|a| + |b| <= usize::MAX for a + b (Vec::with_capacity argument)'],
        'not_covered': [
            'use of variables inside rewrite rules, simplifiers and the Measure translation ("same linear map under every assignment" is a diagram-semantics claim, see C01)',
            'scalar-factor tables keyed by Expr (FxHashMap, no specification)',
        ],
    },
}
