#!/bin/sh
# benign.sh: run the relevant quick check on a scratch copy of /repo with ONE semantics-preserving diff of seeded/_benign applied.
# Expected: exit 0 (still proved) or exit 2 (undecided: proof needs maintenance); exit 1 would be a false alarm.
# usage: lib/benign.sh <diff-name-without-.diff> <property> [...more properties]
cd /verif
d=$1; shift
for pid in "$@"; do
  D=/var/tmp/verif-benign-$d-$pid; rm -rf $D; mkdir $D; rsync -a --exclude target --exclude .git /repo/ $D/
  (cd $D && patch -p1 < /verif/seeded/_benign/$d.diff >/dev/null) || { echo "== $d $pid PATCH-FAILED"; rm -rf $D; continue; }
  VERIF_REPO=$D VERIF_EVIDENCE_DIR=$D/_ev VERIF_REPLAY_DIR=$D/_rp bin/check $pid --tier quick > $D/out.log 2>&1; rc=$?
  echo "== $d $pid exit=$rc"
  grep -E "VIOLATION|UNDECIDED" $D/out.log | cut -c1-300 | head -3
  rm -rf $D
done
