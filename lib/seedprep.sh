#!/bin/sh
# seedprep.sh <worktree> <label>: arrange a sub-agent's out/ directory the way seedcheck.py expects it
wt=$1; label=$2
git -C $wt checkout -- quizx/src 2>/dev/null
rm -f $wt/quizx/tests/seed_demo.rs
mkdir -p $wt/seeded/$label
cp $wt/out/patch.diff $wt/seeded/$label/patch.diff
cp $wt/out/seed_demo.rs $wt/seeded/$label/demo.rs
python3 - "$wt" "$label" <<'PY'
import json,sys
wt,label=sys.argv[1:3]
m=json.load(open(f'{wt}/out/meta.json'))
open(f'{wt}/seeded/{label}/notes.md','w').write(f"summary: {m.get('summary')}\n\nneeds: {m.get('needs')}\n")
PY
