#!/usr/bin/env python3
"""seedcheck.py <property> <worktree> <label> <name>
Confirm a seeded change delivered by a sub-agent in <worktree>/seeded/<label> (patch.diff, demo.rs, notes.md):
  1. in the worktree: apply patch -> `cargo test --lib` passes -> demo FAILS; revert -> demo PASSES
  2. apply the patch to /repo, run the property's quick check, undo
and store it as /verif/seeded/<name>/ with meta.json."""
import json, os, re, shutil, subprocess, sys, time

def sh(cmd, cwd=None, timeout=3600):
    p = subprocess.run(cmd, shell=True, cwd=cwd, capture_output=True, text=True, timeout=timeout, env=dict(os.environ, CARGO_NET_OFFLINE='true'))
    return p.returncode, p.stdout + p.stderr

def main():
    pid, wt, label, name = sys.argv[1:5]
    src = os.path.join(wt, 'seeded', label)
    patch = os.path.join(src, 'patch.diff')
    meta = {'property': pid, 'source': f'sub-agent worktree {wt}, change {label}', 'steps': {}}
    sh('git checkout -- quizx/src', cwd=wt)
    os.makedirs(os.path.join(wt, 'quizx', 'tests'), exist_ok=True)
    demo_t = os.path.join(wt, 'quizx', 'tests', f'seed_{name.replace("-", "_")}.rs')
    shutil.copy(os.path.join(src, 'demo.rs'), demo_t)
    tname = os.path.basename(demo_t)[:-3]
    try:
        rc, out = sh(f'git apply {patch}', cwd=wt)
        assert rc == 0, 'patch does not apply: ' + out
        rc, out = sh('cargo test --offline -p quizx --lib 2>&1 | tail -5', cwd=wt)
        m = re.search(r'test result: (\w+)\. (\d+) passed; (\d+) failed', out)
        meta['steps']['suite_with_change'] = m.group(0) if m else out[-300:]
        suite_ok = bool(m and m.group(1) == 'ok' and m.group(3) == '0')
        rc, out = sh(f'cargo test --offline -p quizx --test {tname} 2>&1 | tail -30', cwd=wt)
        m = re.search(r'test result: (\w+)\. (\d+) passed; (\d+) failed', out)
        meta['steps']['demo_with_change'] = m.group(0) if m else out[-300:]
        demo_fails = bool(m and m.group(1) == 'FAILED')
        sh('git checkout -- quizx/src', cwd=wt)
        rc, out = sh(f'cargo test --offline -p quizx --test {tname} 2>&1 | tail -30', cwd=wt)
        m = re.search(r'test result: (\w+)\. (\d+) passed; (\d+) failed', out)
        meta['steps']['demo_without_change'] = m.group(0) if m else out[-300:]
        demo_passes = bool(m and m.group(1) == 'ok')
    finally:
        sh('git checkout -- quizx/src', cwd=wt)
        if os.path.exists(demo_t):
            os.remove(demo_t)
    meta['confirmed'] = suite_ok and demo_fails and demo_passes
    print(json.dumps(meta['steps'], indent=1)); print('confirmed:', meta['confirmed'])
    if not meta['confirmed']:
        return 1
    # run the registered check against a scratch copy of /repo's working tree with the patch applied
    # (same as `git -C /repo apply` + check + `git -C /repo checkout -- .`, without blocking /repo)
    import tempfile
    scratch = tempfile.mkdtemp(prefix='verif-seed-', dir='/var/tmp')
    t0 = time.time()
    try:
        sh(f'rsync -a --exclude target --exclude .git /repo/ {scratch}/')
        rc, out = sh(f'patch -p1 -d {scratch} < {patch}')
        assert rc == 0, out
        rc, out = sh(f'VERIF_REPO={scratch} VERIF_EVIDENCE_DIR={scratch}/_ev VERIF_REPLAY_DIR={scratch}/_replay bin/check {pid} --tier quick', cwd='/verif', timeout=7200)
        rep = []
        if os.path.isdir(f'{scratch}/_replay'):
            for f in sorted(os.listdir(f'{scratch}/_replay'))[:3]:
                rep.append(json.load(open(os.path.join(scratch, '_replay', f))))
        meta['replay_files'] = [{k: (str(v)[:1500]) for k, v in r.items() if k in ('failed_obligation', 'backend', 'search', 'harness')} for r in rep]
    finally:
        shutil.rmtree(scratch, ignore_errors=True)
    lines = [l for l in out.split('\n') if re.search(r'VIOLATION|UNDECIDED|OK property|failed obligation', l)]
    meta['check'] = {'cmd': f'bin/check {pid} --tier quick', 'exit': rc, 'lines': lines[:8], 'wall_s': round(time.time() - t0, 1)}
    meta['detected'] = rc == 1
    print('\n'.join(lines[:8])); print('check exit', rc)
    dst = os.path.join('/verif/seeded', name)
    os.makedirs(dst, exist_ok=True)
    for f in ('patch.diff', 'demo.rs', 'notes.md'):
        shutil.copy(os.path.join(src, f), os.path.join(dst, f))
    notes = open(os.path.join(src, 'notes.md')).read()
    meta['needs_to_manifest'] = notes[:1500]
    json.dump(meta, open(os.path.join(dst, 'meta.json'), 'w'), indent=1)
    return 0

if __name__ == '__main__':
    sys.exit(main())
