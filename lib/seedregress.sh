#!/bin/sh
# seedregress.sh [name-prefix]: re-apply every seeded change of /verif/seeded to a scratch copy of /repo's working tree and run the quick
# check of its property; expected: exit 1 (reported).  "PATCH-STALE" = the patch no longer applies to the current tree (a later fix: commit
# changed the function).  One line per seed on stdout; nothing under /repo or /verif is modified (evidence / replay go to the scratch copy).
cd /verif
for d in seeded/${1:-C}*; do
  [ -f "$d/patch.diff" ] || continue
  name=$(basename $d); pid=$(echo $name | cut -c1-3)
  D=$(mktemp -d /var/tmp/verif-regress-XXXXXX); rsync -a --exclude target --exclude .git /repo/ $D/
  if ! patch -p1 -s -d $D < $d/patch.diff >/dev/null 2>&1; then echo "$name PATCH-STALE"; rm -rf $D; continue; fi
  VERIF_REPO=$D VERIF_EVIDENCE_DIR=$D/_ev VERIF_REPLAY_DIR=$D/_rp bin/check $pid --tier quick > $D/out.log 2>&1; rc=$?
  echo "$name exit=$rc $(grep -c VIOLATION $D/out.log) violation lines; first: $(grep -m1 'failed obligation' $D/out.log | cut -c1-150)"
  rm -rf $D
done
