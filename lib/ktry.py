import sys; sys.path.insert(0,'/verif/lib')
import kunit, json
unit, rel = sys.argv[1], sys.argv[2]
hs = sys.argv[3:]
info = kunit.run(unit, rel, hs, jobs=8, timeout=3000)
print(info['cmd']); print('wall', info['wall_s'])
for h,r in info['harnesses'].items(): print(h, {k:r[k] for k in ('status','checks','failed','covers_sat','covers_total','time_s')}, r['failed_checks'][:5])
print('missing', info['missing'])
if info['compile_error']: print(info['compile_error'])
if not info['harnesses']: print(info['raw_tail'])
