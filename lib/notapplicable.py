"""Reasons for properties that are not claimed (used only while the property is absent from props.PROPS)."""

NOT_APPLICABLE = {
    'C01': 'preserving the linear map of arbitrary ZX-diagrams is a theorem of ZX-calculus meta-theory; no installed verifier has a diagram semantics, and the code (macros over GraphLike iterator-returning trait methods, FxHashMap-keyed gadget families) is outside the Verus subset and beyond Kani memory at 3-4 vertices',
    'C02': 'same semantic gap as C01 (tensor semantics of diagrams); add_to_graph/add_spider call iterator-returning trait methods Verus rejects',
    'C03': 'whole-pipeline equivalence; depends on bitgauss, gflow preservation, CLI I/O; no function-level contract expresses it',
    'C04': 'rule soundness is the C01 gap per rule; panic-freedom under the matcher needs graph-level reasoning through iterator-returning trait methods',
    'C05': 'exact-scalar equality of sums of diagrams, rayon schedules; no contract within reach',
    'C06': 'process I/O, RNG distributions, decomposer; no function-level contract expresses Born-rule sampling',
    'C08': 'built on ndarray/rayon (unsafe, parallel), generic over float/exact elements; no specs for the dependency',
    'C09': 'unit not completed yet',
    'C10': 'unit not completed yet',
    'C11': 'unit not completed yet',
    'C12': 'soundness of a definite answer needs C01 + C11 semantics; its structural ingredient is_identity is checked under C11',
    'C13': 'serde, string formatting/parsing of phases, polar floats; outside both verifiers',
    'C14': 'openqasm lexer/parser, f64 Display, float-to-rational approximation; outside both verifiers',
    'C15': 'unit not completed yet',
    'C17': 'unit not completed yet',
    'C18': 'unit not completed yet',
    'C19': 'unit not completed yet',
    'C20': 'bitgauss null space and stacking, HashMap ordering, global independence/completeness argument over iterator pipelines on the hash backend',
}
