#!/usr/bin/env python3
"""coverage_map.py: for every source file a claimed property is anchored in, list the functions (outside #[cfg(test)]) that NO Verus unit
extracts (by name; a name counts as extracted if any impl's function of that name in that file is).  Purely mechanical, run from /verif;
the output is pasted into DESIGN.md section 6a and tells where only Kani, the bounded search, or nothing stands behind a function."""
import glob, os, re
REPO = os.environ.get('VERIF_REPO', '/repo')
VERIF = os.path.dirname(os.path.dirname(os.path.abspath(__file__)))
ext = {}
for u in glob.glob(os.path.join(VERIF, 'units', '*.vspec')):
    for l in open(u):
        m = re.match(r'//@extract\s+(\S+)\s+::\s+(.*?)\s+::\s+fn\s+(\w+)', l)
        if m:
            ext.setdefault(m.group(1), set()).add(m.group(3))
FILES = ['quizx/src/scalar.rs', 'quizx/src/scalar/dyadic.rs', 'quizx/src/phase.rs', 'quizx/src/phase/utils.rs', 'quizx/src/params.rs', 'quizx/src/gate.rs',
         'quizx/src/circuit.rs', 'quizx/src/linalg.rs', 'quizx/src/graph.rs', 'quizx/src/basic_rules.rs', 'quizx/src/simplify.rs', 'quizx/src/equality.rs',
         'quizx/src/vec_graph.rs', 'quizx/src/hash_graph.rs', 'quizx/src/generate.rs', 'quizx/src/rankwidth/decomp_tree.rs', 'quizx/src/rankwidth/annealer.rs']
for f in FILES:
    p = os.path.join(REPO, f)
    if not os.path.exists(p):
        continue
    src = open(p).read()
    i = src.find('#[cfg(test)]')
    if i > 0:
        src = src[:i]
    names = []
    for n in re.findall(r'\bfn\s+(\w+)', src):
        if n not in names:
            names.append(n)
    e = ext.get(f, set())
    out = [n for n in names if n not in e]
    print(f"{f}: {len(names)} function names, {len(names) - len(out)} extracted into a Verus unit; not extracted: {', '.join(out) if out else '-'}")
