#!/usr/bin/env python3
"""Regenerate MANIFEST.json from lib/props.py (claimed properties) and lib/notapplicable.py."""
import json
import os
import sys

HERE = os.path.dirname(os.path.abspath(__file__))
VERIF = os.path.dirname(HERE)
sys.path.insert(0, HERE)
from props import PROPS  # noqa: E402
from notapplicable import NOT_APPLICABLE  # noqa: E402

ALL = [f'C{i:02d}' for i in range(1, 21)]


def main():
    checks = []
    for pid in ALL:
        if pid not in PROPS:
            continue
        c = PROPS[pid]
        checks.append({
            'property_id': pid,
            'quick_cmd': f'bin/check {pid} --tier quick',
            'thorough_cmd': f'bin/check {pid} --tier thorough',
            'evidence_file': f'/verif/evidence/{pid}.json',
            'replay_cmd_template': f'bin/check {pid} --replay {{path}}',
            'engine': 'contracts',
            'level_claimed': {
                'category': c.get('level', 'proof'),
                'text': c['level_text'],
                'design_ref': c.get('design_ref', 'DESIGN.md §3'),
            },
            'level_note': c['level_note'],
            'technique': c['technique'],
        })
    na = [{'property_id': pid, 'reason': NOT_APPLICABLE[pid]} for pid in ALL if pid not in PROPS]
    man = {
        'version': 1,
        'setup_cmd': 'true',
        'hooks': {
            'guard': 'kani (cfg set only by cargo-kani on a scratch copy; Verus works on extracted text) — no hook commits in /repo',
            'enable': 'none needed: harness modules are appended to a scratch copy under #[cfg(kani)]',
            'baseline_off_cmd': 'cd /repo && cargo nextest run --workspace --no-fail-fast --offline || cargo test --workspace --no-fail-fast --offline',
            'source_commits': [],
            'add_only': True,
        },
        'engines': [{
            'name': 'contracts', 'path': '/verif/bin/check', 'serves_properties': [c['property_id'] for c in checks],
            'kind_free_text': 'contract-based deductive verification: Verus on mechanically extracted real functions, Kani function-level contract harnesses on the real crate',
        }],
        'checks': checks,
        'not_applicable': na,
    }
    with open(os.path.join(VERIF, 'MANIFEST.json'), 'w') as fh:
        json.dump(man, fh, indent=1)
    print('claimed:', [c['property_id'] for c in checks])
    print('not applicable:', [x['property_id'] for x in na])


if __name__ == '__main__':
    main()
