#!/usr/bin/env python3
"""mutscan.py <property> <relfile> <first-line> <last-line> [--max N] [--jobs J]

Mutation scan (self-test of the checks, never touches /repo): for every line of <relfile> in the given range, apply ONE small operator
mutation at a time (== <-> !=, < <-> <=, > <-> >=, && <-> ||, + <-> -, 0 <-> 1 in small literals, `true` <-> `false`, v0 <-> v1, s <-> t in
calls) on a scratch copy that still compiles, run the property's quick check against the copy, and tabulate
    exit 1 = reported,  exit 2 = undecided,  exit 0 = SURVIVED (equivalent mutant or a gap to look at).
Mutants that do not compile are skipped.  Results: one line per mutant on stdout."""
import os
import re
import shutil
import subprocess
import sys
import tempfile
from concurrent.futures import ThreadPoolExecutor

VERIF = os.path.dirname(os.path.dirname(os.path.abspath(__file__)))
OPS = [
    (r'==', '!='), (r'!=', '=='), (r'<=', '<'), (r'>=', '>'), (r'(?<![<>=!-])<(?![<=])', '<='), (r'(?<![<>=!-])>(?![>=])', '>='),
    (r'&&', '||'), (r'\|\|', '&&'), (r'(?<![+\-=<>!*/&|] )\+(?![+=])', '-'), (r' - ', ' + '),
    (r'\btrue\b', 'false'), (r'\bfalse\b', 'true'), (r'\bv0\b', 'v1'), (r'\bv1\b', 'v0'), (r'\(s, t', '(t, s'),
    (r'\b1\b', '2'), (r'\b0\b', '1'), (r'\bi0\b', 'i1'), (r'VType::Z', 'VType::X'), (r'EType::H', 'EType::N'), (r'EType::N', 'EType::H'),
]


def mutants(lines, lo, hi):
    out = []
    for ln in range(lo - 1, min(hi, len(lines))):
        text = lines[ln]
        code = text.split('//')[0]
        if not code.strip() or code.strip().startswith(('#', '///')) or re.search(r'\bfn\b|->|\bimpl\b|FxHash|Vec<|Option<', code):
            continue
        for pat, rep in OPS:
            for m in re.finditer(pat, code):
                new = text[:m.start()] + rep + text[m.end():]
                if new != text:
                    out.append((ln + 1, f'{m.group(0)} -> {rep} @col{m.start()}', new))
    return out


def run_one(pid, rel, lines, mut, base):
    ln, desc, new = mut
    root = tempfile.mkdtemp(prefix='verif-mscan-', dir=base)
    try:
        subprocess.run(['rsync', '-a', '--exclude', 'target', '--exclude', '.git', '/repo/', root + '/'], check=True)
        ls = list(lines)
        ls[ln - 1] = new
        open(os.path.join(root, rel), 'w').write('\n'.join(ls))
        env = dict(os.environ, CARGO_NET_OFFLINE='true', CARGO_TARGET_DIR=os.path.join(VERIF, '.cache', 'mutscan-target'))
        c = subprocess.run(['cargo', 'check', '--offline', '-q', '-p', 'quizx', '--lib'], cwd=root, env=env, capture_output=True, text=True)
        if c.returncode != 0:
            return (ln, desc, 'nocompile', '')
        env = dict(os.environ, VERIF_REPO=root, VERIF_EVIDENCE_DIR=os.path.join(root, '_ev'), VERIF_REPLAY_DIR=os.path.join(root, '_rp'))
        p = subprocess.run([os.path.join(VERIF, 'bin', 'check'), pid, '--tier', 'quick'], env=env, capture_output=True, text=True, cwd=VERIF)
        out = p.stdout + p.stderr
        first = ''
        for l in out.split('\n'):
            if re.search(r'failed obligation|UNDECIDED', l):
                first = l.strip()[:160]
                break
        return (ln, desc, {0: 'SURVIVED', 1: 'reported', 2: 'undecided'}.get(p.returncode, f'rc{p.returncode}'), first)
    finally:
        shutil.rmtree(root, ignore_errors=True)


def main():
    a = sys.argv[1:]
    pid, rel, lo, hi = a[0], a[1], int(a[2]), int(a[3])
    mx = int(a[a.index('--max') + 1]) if '--max' in a else 10 ** 9
    jobs = int(a[a.index('--jobs') + 1]) if '--jobs' in a else 2
    lines = open(os.path.join('/repo', rel)).read().split('\n')
    ms = mutants(lines, lo, hi)
    step = max(1, len(ms) // mx) if len(ms) > mx else 1
    ms = ms[::step][:mx]
    base = os.environ.get('VERIF_TMP') or '/var/tmp'
    print(f'# {pid} {rel}:{lo}-{hi}: {len(ms)} mutants', flush=True)
    tally = {}
    with ThreadPoolExecutor(max_workers=jobs) as ex:
        for r in ex.map(lambda m: run_one(pid, rel, lines, m, base), ms):
            tally[r[2]] = tally.get(r[2], 0) + 1
            print(f'{rel}:{r[0]}  {r[1]:<28} {r[2]:<10} {r[3]}', flush=True)
    print('# tally', tally, flush=True)


if __name__ == '__main__':
    main()
