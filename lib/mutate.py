#!/usr/bin/env python3
"""mutate.py <property> <relfile> <python-regex> <replacement> [--count N] [--tier quick] [--vtry unit]

Self-test helper: copy /repo's working tree to a scratch directory (outside /repo and /verif), apply ONE
textual mutation to <relfile>, run the property's check against the mutated copy (VERIF_REPO) and print
its exit status.  The copy is removed afterwards.  Never touches /repo.
"""
import os
import re
import shutil
import subprocess
import sys
import tempfile

VERIF = os.path.dirname(os.path.dirname(os.path.abspath(__file__)))


def main():
    a = sys.argv[1:]
    pid, rel, pat, repl = a[:4]
    count = 1
    vtry = None
    tier = 'quick'
    i = 4
    while i < len(a):
        if a[i] == '--count':
            count = int(a[i + 1]); i += 2
        elif a[i] == '--vtry':
            vtry = a[i + 1]; i += 2
        elif a[i] == '--tier':
            tier = a[i + 1]; i += 2
        else:
            i += 1
    base = os.environ.get('VERIF_TMP') or '/var/tmp'
    root = tempfile.mkdtemp(prefix='verif-mut-', dir=base)
    try:
        subprocess.run(['rsync', '-a', '--exclude', 'target', '--exclude', '.git', '/repo/', root + '/'], check=True)
        f = os.path.join(root, rel)
        s = open(f).read()
        s2, n = re.subn(pat, repl, s, flags=re.S)
        if n != count:
            print(f'mutation matched {n} times, expected {count}')
            return 3
        open(f, 'w').write(s2)
        env = dict(os.environ, VERIF_REPO=root, VERIF_EVIDENCE_DIR=os.path.join(root, '_evidence'), VERIF_REPLAY_DIR=os.path.join(root, '_replay'))
        if vtry:
            p = subprocess.run([sys.executable, os.path.join(VERIF, 'lib', 'vtry.py'), vtry, '30', '3'], env=env, capture_output=True, text=True)
        else:
            p = subprocess.run([os.path.join(VERIF, 'bin', 'check'), pid, '--tier', tier], env=env, capture_output=True, text=True, cwd=VERIF)
        out = p.stdout + p.stderr
        lines = [l for l in out.split('\n') if re.search(r'VIOLATION|UNDECIDED|OK property|failed obligation|KNOWN|status|^\[|error', l)]
        print('\n'.join(lines[:14]))
        print('exit', p.returncode)
        return 0
    finally:
        shutil.rmtree(root, ignore_errors=True)


if __name__ == '__main__':
    sys.exit(main())
