"""Assemble a Verus unit from a .vspec file + the current working tree of /repo, run Verus on it and
classify the outcome.

.vspec format: plain Verus/Rust text, plus directive lines starting with `//@`:

  //@extract <relpath> :: <scope> :: fn <name>         scope = `-` | `impl <header>` | `trait <Name>`
  //@extract-item <relpath> :: <kind> <name>            struct/enum/const/type, verbatim
      inside an extract block (until //@end):
  //@rewrite <label> x<N> s<D>regex<D>replacement<D>    python regex applied to the extracted text; must hit exactly N times
  //@contract                                           following lines go between signature and body
  //@loop <k>                                           following lines go between header and body of the k-th loop (textual order, 0-based)
  //@loop-after <k>                                     following lines go after the line with the closing brace of the k-th loop
  //@loop-body <k>                                      following lines go right after the opening brace of the k-th loop's body
  //@loop-body-end <k>                                  following lines go before the line with the closing brace of the k-th loop (end of its body)
  //@before <snippet> / //@after <snippet>              following lines go before/after the (unique) body line containing <snippet>
  //@before #<k>/<n> <snippet>                          ... the k-th of exactly n body lines containing <snippet>
                                                        (<snippet> may be `re:<python regex>`, searched in each body line)
  //@body-start                                         following lines go right after the opening brace of the body
  //@body-end                                           following lines go before the body's tail expression (or its closing brace)
  //@end
  //@include <unit>                                     paste the verus! body of units/<unit>.vspec here (re-extracted, re-verified)
  //@include-fragment <unit> <name>                     paste the text between `//@fragment <name>` and `//@end-fragment` of units/<unit>.vspec

What extraction changes is limited to: dropping the item's leading doc comments/attributes (R0), the
automatic reference-pattern desugarings R1-R3, naming the return value (R7: `-> T` becomes
`-> (res: T)`), and the explicit, counted `//@rewrite` lines of the unit.  Everything else is the
repository's text.
"""
import hashlib
import json
import os
import re
import subprocess
import time

from rustsrc import RustFile, RustSrcError, mask, match_brace, loops_in

REPO = os.environ.get('VERIF_REPO', '/repo')


class AnchorLost(Exception):
    pass


class Line:
    __slots__ = ('text', 'origin')

    def __init__(self, text, origin):
        self.text = text
        self.origin = origin


# ---------------------------------------------------------------------------------------------
# automatic rewrites (Rust's own desugaring of reference patterns on Copy values)

def auto_rewrites(text):
    counts = {}

    def sub(label, pat, repl, s, flags=0):
        s2, n = re.subn(pat, repl, s, flags=flags)
        if n:
            counts[label] = counts.get(label, 0) + n
        return s2

    # R1  for &x in E {      ->  for x__r in it__x: E { let x = *x__r;     (also names the ghost iterator, see R12)
    text = sub('R1 for-ref-pattern', r'\bfor\s+&([a-z_][A-Za-z0-9_]*)\s+in\s+(?![a-z_][A-Za-z0-9_]*\s*:[^:])([^{]+?)\s*\{',
               r'for \1__r in it__\1: \2 { let \1 = *\1__r;', text)
    # R25 for (a, b) in E {  ->  for a__pr in it__a: E { let (a, b) = a__pr;     (Rust's own desugaring of a tuple pattern)
    text = sub('R25 for-tuple-pattern', r'\bfor\s+\(\s*([a-z_][A-Za-z0-9_]*)\s*,\s*([a-z_][A-Za-z0-9_]*)\s*\)\s+in\s+([^{]+?)\s*\{',
               r'for \1__pr in it__\1: \3 { let (\1, \2) = \1__pr;', text)
    # R12 for x in E {       ->  for x in it__x: E {      (Verus syntax naming the loop's ghost iterator so that invariants
    #                                                      can mention the position; no executable meaning)
    text = sub('R12 name-ghost-iterator', r'\bfor\s+([a-z_][A-Za-z0-9_]*)\s+in\s+(?![a-z_][A-Za-z0-9_]*\s*:[^:])([^{]+?)\s*\{',
               r'for \1 in it__\1: \2 {', text)
    # R2  if let Some(&x) = E {  /  while let Some(&x) = E {
    text = sub('R2 if-let-ref-pattern', r'\b(if|while)\s+let\s+Some\(&([a-z_][A-Za-z0-9_]*)\)\s*=\s*([^{]+?)\s*\{',
               r'\1 let Some(\2__r) = \3 { let \2 = *\2__r;', text)
    return text, counts


def name_return(sig, want_name='res'):
    """R7: `-> T` becomes `-> (res: T)`.  sig is the text from `fn` up to (not including) the body brace."""
    msk = mask(sig)
    # find the parameter list
    p = msk.find('(', msk.find('fn'))
    if p < 0:
        return sig, 0
    q = match_brace(msk, p)
    m = re.compile(r'\s*->\s*').match(msk, q + 1)
    if not m:
        return sig, 0
    start = m.end()
    w = re.search(r'\bwhere\b', msk[start:])
    end = start + w.start() if w else len(sig)
    ty = sig[start:end].strip()
    if ty.startswith('(') and re.match(r'\(\s*[a-z_][A-Za-z0-9_]*\s*:', ty):
        return sig, 0
    return sig[:start] + f'({want_name}: {ty})' + (' ' + sig[end:] if w else ''), 1


# ---------------------------------------------------------------------------------------------

class Extract:
    def __init__(self, relpath, scope, kind, name, vline):
        self.relpath, self.scope, self.kind, self.name, self.vline = relpath, scope, kind, name, vline
        self.rewrites = []      # (label, n, pat, repl)
        self.contract = []
        self.loops = {}         # k -> [lines]
        self.loop_bodies = {}   # k -> [lines] inserted right after the opening brace of loop k
        self.loop_afters = {}   # k -> [lines] inserted after the line holding the closing brace of loop k
        self.loop_body_ends = {}  # k -> [lines] inserted before the line holding the closing brace of loop k (end of its body)
        self.before = []        # (snippet, [lines])
        self.after = []
        self.body_start = []
        self.body_end = []      # before the tail expression (or before the closing brace when the body ends with a statement)
        self.noname = False
        self.expand_macros = []  # names of macro_rules! macros whose invocations inside the body are expanded textually (R24)
        self.derive = ('Clone', 'Copy', 'PartialEq', 'Eq')
        self.add_derive = ()    # Verus-only derives (e.g. Structural: makes the derived == structural equality)


def parse_vspec(path):
    """returns list of ('text', [Line]) | ('extract', Extract)"""
    parts = []
    cur_text = []
    ex = None
    sink = None
    for ln, raw in enumerate(open(path).read().split('\n'), 1):
        s = raw.strip()
        if s.startswith('//@'):
            d = s[3:].strip()
            if d.startswith('include '):
                # paste the body of another unit's verus! block (everything between its `verus! {` line and its
                # closing `} // verus!` line), directives included: the included functions are re-extracted and re-verified here
                if cur_text:
                    parts.append(('text', cur_text))
                    cur_text = []
                inc = os.path.join(os.path.dirname(path), d.split()[1] + '.vspec')
                sub = parse_vspec(inc)
                started = False
                for kind, pp in sub:
                    if kind == 'text':
                        keep = []
                        for l in pp:
                            if not started:
                                if l.text.strip().startswith('verus! {'):
                                    started = True
                                continue
                            if l.text.strip().startswith('} // verus!'):
                                started = None
                                break
                            keep.append(Line(l.text, ('vspec-include', os.path.basename(inc), l.origin[1])))
                        if keep:
                            parts.append(('text', keep))
                        if started is None:
                            break
                    elif started:
                        parts.append((kind, pp))
                continue
            if d.startswith('include-fragment '):
                # paste the plain-text lines of units/<unit>.vspec between `//@fragment <name>` and `//@end-fragment` (no directives inside):
                # shared DEFINITIONS are taken from the one place they are written, so two units cannot drift apart
                _, unit_, name_ = d.split()[:3]
                inc = os.path.join(os.path.dirname(path), unit_ + '.vspec')
                inside = False
                got = 0
                for ln2, raw2 in enumerate(open(inc).read().split('\n'), 1):
                    t2 = raw2.strip()
                    if t2 == f'//@fragment {name_}':
                        inside = True
                        continue
                    if t2 == '//@end-fragment' and inside:
                        inside = False
                        continue
                    if inside:
                        if t2.startswith('//@'):
                            raise AnchorLost(f'{inc}: directive inside fragment {name_}')
                        cur_text.append(Line(raw2, ('vspec-include', os.path.basename(inc), ln2)))
                        got += 1
                if not got:
                    raise AnchorLost(f'{inc}: fragment {name_} not found')
                continue
            if d in ('end-fragment',) or d.startswith('fragment '):
                continue        # markers only; the text between them is ordinary text of this unit
            if d.startswith('extract-item '):
                if cur_text:
                    parts.append(('text', cur_text))
                    cur_text = []
                rel, rest = [x.strip() for x in d[len('extract-item '):].split('::', 1)]
                kind, name = rest.split()
                ex = Extract(rel, None, kind, name, ln)
                sink = None
            elif d.startswith('extract '):
                if cur_text:
                    parts.append(('text', cur_text))
                    cur_text = []
                rel, scope, fn = [x.strip() for x in d[len('extract '):].split('::', 2)]
                # scope may itself contain '::' (e.g. impl std::ops::Index<usize> for Mat2): re-split from the right
                full = d[len('extract '):]
                rel, rest = [x.strip() for x in full.split('::', 1)]
                idx = rest.rfind(':: fn ')
                if idx < 0:
                    idx = rest.rfind('::fn ')
                scope = rest[:idx].strip()
                fn = rest[idx:].lstrip(':').strip()
                assert fn.startswith('fn '), f"{path}:{ln}: bad extract directive"
                ex = Extract(rel, None if scope == '-' else scope, 'fn', fn[3:].strip(), ln)
                sink = None
            elif d == 'end':
                parts.append(('extract', ex))
                ex = None
                sink = None
            elif ex is None:
                raise SystemExit(f"{path}:{ln}: directive outside extract block: {s}")
            elif d.startswith('rewrite '):
                m = re.match(r'rewrite\s+(\S+)\s+x(\d+|\+|\*)\s+s(.)(.*)$', d)
                delim = m.group(3)
                pat, repl, _ = m.group(4).split(delim)
                # x<N>: exactly N hits; x+: at least one; x*: any number (uniform desugarings such as self -> slf)
                cnt = m.group(2)
                ex.rewrites.append((m.group(1), int(cnt) if cnt.isdigit() else cnt, pat, repl))
            elif d == 'contract':
                sink = ex.contract
            elif d == 'noname':
                ex.noname = True
            elif d.startswith('expand-macro '):
                ex.expand_macros.append(d.split()[1])
            elif d.startswith('add-derive'):
                ex.add_derive = tuple(d.split()[1:])
            elif d.startswith('derive'):
                ex.derive = tuple(d.split()[1:])
            elif d.startswith('loop-after '):
                k = int(d.split()[1])
                sink = ex.loop_afters.setdefault(k, [])
            elif d.startswith('loop-body-end '):
                k = int(d.split()[1])
                sink = ex.loop_body_ends.setdefault(k, [])
            elif d.startswith('loop-body '):
                k = int(d.split()[1])
                sink = ex.loop_bodies.setdefault(k, [])
            elif d.startswith('loop '):
                k = int(d.split()[1])
                sink = ex.loops.setdefault(k, [])
            elif d.startswith('before '):
                sink = []
                ex.before.append((d[len('before '):].strip(), sink))
            elif d.startswith('after '):
                sink = []
                ex.after.append((d[len('after '):].strip(), sink))
            elif d == 'body-start':
                sink = ex.body_start
            elif d == 'body-end':
                sink = ex.body_end
            else:
                raise SystemExit(f"{path}:{ln}: unknown directive {s}")
        else:
            if ex is not None:
                if sink is None:
                    if s:
                        raise SystemExit(f"{path}:{ln}: text inside extract block before any section")
                else:
                    sink.append(Line(raw, ('vspec', ln)))
            else:
                cur_text.append(Line(raw, ('vspec', ln)))
    if cur_text:
        parts.append(('text', cur_text))
    return parts


_files = {}


def rust_file(rel):
    p = os.path.join(REPO, rel)
    if p not in _files:
        _files[p] = RustFile(p)
    return _files[p]


def expand_macro(rf, invocation):
    """`name!(a, b, c)` -> (RustFile over the expansion of the macro's single arm, line offset of the invocation, note)"""
    m = re.match(r'([A-Za-z_][A-Za-z0-9_]*)!\s*\((.*)\)\s*$', invocation, flags=re.S)
    if not m:
        raise RustSrcError(f"bad macro scope `{invocation}`")
    name, args = m.group(1), [a.strip() for a in m.group(2).split(',') if a.strip()]
    msk = rf.msk
    d = re.search(r'\bmacro_rules!\s*' + re.escape(name) + r'\s*\{', msk)
    if not d:
        raise RustSrcError(f"{rf.path}: macro_rules! {name} not found")
    dopen = d.end() - 1
    dclose = match_brace(msk, dopen)
    inner = msk[dopen + 1:dclose]
    po = inner.find('(')
    if po < 0:
        raise RustSrcError(f"{rf.path}: macro {name}: no arm")
    pc = match_brace(inner, po)
    params = re.findall(r'\$([a-z_][A-Za-z0-9_]*)\s*:\s*ident', inner[po:pc + 1])
    arrow = inner.find('=>', pc)
    bo = inner.find('{', arrow)
    bc = match_brace(inner, bo)
    if inner[bc + 1:].strip().strip(';').strip():
        raise RustSrcError(f"{rf.path}: macro {name} has more than one arm (unsupported)")
    body = rf.src[dopen + 1 + bo + 1:dopen + 1 + bc]
    if len(params) != len(args):
        raise RustSrcError(f"{rf.path}: macro {name} takes {len(params)} identifiers, invocation gives {len(args)}")
    inv = re.compile(r'\b' + re.escape(name) + r'!\s*\(\s*' + r'\s*,\s*'.join(re.escape(a) for a in args) + r'\s*,?\s*\)\s*;')
    hits = list(inv.finditer(msk))
    if len(hits) != 1:
        raise RustSrcError(f"{rf.path}: invocation {name}!({', '.join(args)}) found {len(hits)} times")
    for pname, a in zip(params, args):
        body = re.sub(r'\$' + pname + r'\b', a, body)
    if '$' in mask(body):
        raise RustSrcError(f"{rf.path}: macro {name}: unexpanded metavariable")
    return RustFile(rf.path + '#' + invocation, text=body), rf.line_of(hits[0].start()) - 1, f"{name}!({', '.join(args)}) at line {rf.line_of(hits[0].start())}, definition at line {rf.line_of(d.start())}"


def macro_arm(rf, name):
    """(param names, expansion text) of the single arm of `macro_rules! name`"""
    msk = rf.msk
    d = re.search(r'\bmacro_rules!\s*' + re.escape(name) + r'\s*\{', msk)
    if not d:
        raise RustSrcError(f"{rf.path}: macro_rules! {name} not found")
    dopen = d.end() - 1
    dclose = match_brace(msk, dopen)
    inner = msk[dopen + 1:dclose]
    po = inner.find('(')
    pc = match_brace(inner, po)
    params = re.findall(r'\$([a-z_][A-Za-z0-9_]*)\s*:\s*ident', inner[po:pc + 1])
    arrow = inner.find('=>', pc)
    bo = inner.find('{', arrow)
    bc = match_brace(inner, bo)
    if inner[bc + 1:].strip().strip(';').strip():
        raise RustSrcError(f"{rf.path}: macro {name} has more than one arm (unsupported)")
    return params, rf.src[dopen + 1 + bo + 1:dopen + 1 + bc]


def expand_macro_calls(rf, text, name):
    params, arm = macro_arm(rf, name)
    k = 0
    while True:
        msk = mask(text)
        m = re.search(r'\b' + re.escape(name) + r'!\s*\(', msk)
        if not m:
            break
        po = m.end() - 1
        pc = match_brace(msk, po)
        args = [a.strip() for a in text[po + 1:pc].split(',') if a.strip()]
        if len(args) != len(params) or not all(re.fullmatch(r'[A-Za-z_][A-Za-z0-9_]*', a) for a in args):
            raise RustSrcError(f"{rf.path}: invocation of {name}! with arguments {args} does not fit its {len(params)} identifier parameters")
        exp = arm
        for pname, a in zip(params, args):
            exp = re.sub(r'\$' + pname + r'\b', a, exp)
        if '$' in mask(exp):
            raise RustSrcError(f"{rf.path}: macro {name}: unexpanded metavariable")
        text = text[:m.start()] + exp.strip() + text[pc + 1:]
        k += 1
    return text, k


def count_ok(want, got):
    if want == '*':
        return True
    if want == '+':
        return got >= 1
    return want == got


def render_extract(ex, report, vacuity=False):
    rf = rust_file(ex.relpath)
    rf0 = rf
    line_base = 0
    macro_note = None
    try:
        if ex.kind == 'fn' and (ex.scope or '').startswith('macro '):
            # R24: a function generated by a `macro_rules!` invocation — the macro's single arm is expanded textually with the
            # invocation's arguments (both taken from the repository file), then treated like any other function
            rf, line_base, macro_note = expand_macro(rf, ex.scope[len('macro '):].strip())
            it = rf.find_fn(None, ex.name)
        elif ex.kind == 'fn':
            it = rf.find_fn(ex.scope, ex.name)
        else:
            it = rf.find_item(ex.kind, ex.name)
    except RustSrcError as e:
        raise AnchorLost(str(e))
    text = rf.src[it.start:it.end]
    first_line = rf.line_of(it.start) + line_base
    sha = hashlib.sha256(text.encode()).hexdigest()[:16]
    fid = f"{ex.relpath}::{ex.scope or '-'}::{ex.kind} {ex.name}"
    rep = {'item': fid, 'repo_lines': [first_line, rf.line_of(it.end - 1) + line_base], 'sha256_16': sha, 'rewrites': {}}
    if macro_note:
        rep['rewrites']['R24 macro-expansion'] = 1
        rep['macro'] = macro_note
    report.append(rep)

    if ex.kind != 'fn':
        # R0: keep only the derives Verus can handle; drop doc comments and other attributes
        attrs = rf.src[it.attrs_start:it.start]
        keep = []
        for m in re.finditer(r'#\[derive\(([^)]*)\)\]', attrs, flags=re.S):
            keep += [t.strip() for t in m.group(1).split(',') if t.strip() in ex.derive]
        if ex.kind == 'struct' and it.body_open is not None:
            # R8: widen field visibility (irrelevant to verification; Verus forbids private fields in public contracts)
            text, k = re.subn(r'(?m)^(\s*)(?!pub\b)([a-z_][A-Za-z0-9_]*\s*:)', r'\1pub \2', text)
            if k:
                rep['rewrites']['R8 pub-fields'] = k
        if ex.kind == 'struct' and it.body_open is None and '(' in text:
            # R8 for tuple structs: `struct P(A, B);` -> `struct P(pub A, pub B);`
            tm = mask(text)
            po = tm.index('(')
            pc = match_brace(tm, po)
            fields, depth, last = [], 0, po + 1
            for q in range(po + 1, pc):
                ch = tm[q]
                if ch in '([{<':
                    depth += 1
                elif ch in ')]}>':
                    depth -= 1
                elif ch == ',' and depth == 0:
                    fields.append(text[last:q])
                    last = q + 1
            fields.append(text[last:pc])
            newf = [f if re.match(r'\s*pub\b', f) or not f.strip() else re.sub(r'^(\s*)', r'\1pub ', f, count=1) for f in fields]
            k = sum(1 for a, b in zip(fields, newf) if a != b)
            text = text[:po + 1] + ','.join(newf) + text[pc:]
            if k:
                rep['rewrites']['R8 pub-fields'] = k
        for (label, n, pat, repl) in ex.rewrites:
            text, k = re.subn(pat, repl, text, flags=re.S)
            if not count_ok(n, k):
                raise AnchorLost(f"{fid}: rewrite {label} expected {n} hits, got {k}")
            rep['rewrites'][label] = k
        keep = keep + [x for x in ex.add_derive if x not in keep]
        if keep:
            text = '#[derive(' + ', '.join(keep) + ')] ' + text
            rep['rewrites']['R0 derive-filter'] = 1
        return [Line(t, ('repo', ex.relpath, first_line + i)) for i, t in enumerate(text.split('\n'))]

    if it.body_open is None:
        # a trait method declaration: signature + contract + `;`
        if not (ex.scope or '').startswith('trait '):
            raise AnchorLost(f"{fid}: no body")
        sig = rf.src[it.start:it.end].rstrip().rstrip(';').rstrip()
        for (label, n, pat, repl) in ex.rewrites:
            sig, k = re.subn(pat, repl, sig, flags=re.S)
            if not count_ok(n, k):
                raise AnchorLost(f"{fid}: rewrite {label} expected {n} hits, got {k}")
            rep['rewrites'][label] = k
        if ex.contract and not ex.noname:
            sig, k = name_return(sig)
            if k:
                rep['rewrites']['R7 name-return'] = k
        out = [Line(t, ('repo', ex.relpath, first_line + i)) for i, t in enumerate(sig.split('\n'))]
        out.extend(ex.contract)
        out.append(Line('    ;', ('vspec', ex.vline)))
        return out
    sig = rf.src[it.start:it.body_open].rstrip()
    body = rf.src[it.body_open:it.end]          # includes braces
    body_first_line = rf.line_of(it.body_open)

    # R24 (in-body form): invocations `name!(a, b, ..)` of a single-arm macro_rules! macro with identifier parameters are replaced by
    # the arm's expansion, taken from the macro definition in the same file
    for mname in ex.expand_macros:
        try:
            body, k = expand_macro_calls(rf0, body, mname)
        except RustSrcError as e:
            raise AnchorLost(str(e))
        if k == 0:
            raise AnchorLost(f"{fid}: no invocation of {mname}! in the body")
        rep['rewrites'][f'R24 macro-expansion {mname}!'] = k
    # explicit rewrites on signature+body separately so that line bookkeeping survives
    for (label, n, pat, repl) in ex.rewrites:
        sig2, k1 = re.subn(pat, repl, sig, flags=re.S)
        body2, k2 = re.subn(pat, repl, body, flags=re.S)
        if not count_ok(n, k1 + k2):
            raise AnchorLost(f"{fid}: rewrite {label} expected {n} hits, got {k1 + k2}")
        if body2.count('\n') != body.count('\n'):
            raise AnchorLost(f"{fid}: rewrite {label} changes the number of lines")
        sig, body = sig2, body2
        rep['rewrites'][label] = k1 + k2
    body, cnt = auto_rewrites(body)
    rep['rewrites'].update(cnt)
    # R8: visibility is meaningless in the single-module unit file and Verus forbids private fields in
    # the contract of a `pub fn`
    sig, k = re.subn(r'^pub(?:\s*\([^)]*\))?\s+', '', sig)
    if k:
        rep['rewrites']['R8 drop-pub'] = k
    if ex.contract and not ex.noname:
        sig, k = name_return(sig)
        if k:
            rep['rewrites']['R7 name-return'] = k

    bmsk = mask(body)
    blines = body.split('\n')
    mlines = bmsk.split('\n')
    # insertion table: line index -> (col, [Lines])  for loops;  before/after: whole-line
    inserts_before = {}
    inserts_after = {}
    inline = {}   # (line, col) -> [Lines]
    loops = loops_in(bmsk)
    for k, lines in ex.loops.items():
        if k >= len(loops):
            raise AnchorLost(f"{fid}: loop {k} not found (function has {len(loops)} loops)")
        _, brace_off, _ = loops[k]
        li = bmsk.count('\n', 0, brace_off)
        col = brace_off - (bmsk.rfind('\n', 0, brace_off) + 1)
        inline[(li, col)] = lines
    for k, lines in ex.loop_bodies.items():
        if k >= len(loops):
            raise AnchorLost(f"{fid}: loop {k} not found (function has {len(loops)} loops)")
        _, brace_off, _ = loops[k]
        li = bmsk.count('\n', 0, brace_off)
        col = brace_off - (bmsk.rfind('\n', 0, brace_off) + 1) + 1
        # stay behind the `let x = *x__r;` that R1 put right after the brace
        m = re.match(r'\s*let (?:[a-z_][A-Za-z0-9_]* = \*[a-z_][A-Za-z0-9_]*__r|\([a-z_][A-Za-z0-9_]*(?:, [a-z_][A-Za-z0-9_]*)+\) = [a-z_][A-Za-z0-9_]*__pr);', bmsk[brace_off + 1:])
        if m:
            col += m.end()
        inline[(li, col)] = lines
    for k, lines in ex.loop_afters.items():
        if k >= len(loops):
            raise AnchorLost(f"{fid}: loop {k} not found (function has {len(loops)} loops)")
        _, brace_off, _ = loops[k]
        close = match_brace(bmsk, brace_off)
        li = bmsk.count('\n', 0, close)
        if bmsk[close + 1:bmsk.find('\n', close) if bmsk.find('\n', close) >= 0 else len(bmsk)].strip():
            raise AnchorLost(f"{fid}: loop-after {k}: code follows the closing brace on the same line")
        inserts_after.setdefault(li, []).extend(lines)
    for k, lines in ex.loop_body_ends.items():
        if k >= len(loops):
            raise AnchorLost(f"{fid}: loop {k} not found (function has {len(loops)} loops)")
        _, brace_off, _ = loops[k]
        close = match_brace(bmsk, brace_off)
        li = bmsk.count('\n', 0, close)
        if bmsk[bmsk.rfind('\n', 0, close) + 1:close].strip():
            raise AnchorLost(f"{fid}: loop-body-end {k}: code precedes the closing brace on the same line")
        inserts_before.setdefault(li, []).extend(lines)
    rep['loops'] = len(loops)
    rep['loops_with_invariant'] = len(ex.loops)
    def anchor(snip):
        # `<snippet>` must match exactly one body line; `#k/n <snippet>` picks the k-th (0-based) of exactly n matches
        m = re.match(r'#(\d+)/(\d+)\s+(.*)$', snip)
        k, n = (int(m.group(1)), int(m.group(2))) if m else (0, 1)
        text = m.group(3) if m else snip
        if text.startswith('re:'):
            rx = re.compile(text[3:])
            hits = [i for i, l in enumerate(mlines) if rx.search(l)]
        else:
            hits = [i for i, l in enumerate(mlines) if text in l]
        if len(hits) != n:
            raise AnchorLost(f"{fid}: anchor `{text}` matches {len(hits)} lines, expected {n}")
        return hits[k]
    for (snip, lines) in ex.before:
        inserts_before.setdefault(anchor(snip), []).extend(lines)
    for (snip, lines) in ex.after:
        inserts_after.setdefault(anchor(snip), []).extend(lines)

    if ex.body_end:
        # last non-blank line strictly inside the body braces
        last = len(mlines) - 1
        if mlines[last].strip() in ('}', ''):
            last -= 1
        while last > 0 and not mlines[last].strip():
            last -= 1
        t = mlines[last].rstrip()
        if t.endswith(';') or t.endswith('}'):
            inserts_after.setdefault(last, []).extend(ex.body_end)
        else:
            # single-line tail expression
            opens = sum(t.count(c) for c in '([{') - sum(t.count(c) for c in ')]}')
            if opens != 0:
                # R23: a tail expression spanning several lines is named (`let res__tail = <expr>; <proof> res__tail`) so that
                # the proof text can follow it; the expression itself is untouched
                first = last
                bal = 0
                while first > 0:
                    tl = mlines[first]
                    bal += sum(tl.count(c) for c in ')]}') - sum(tl.count(c) for c in '([{')
                    prev = mlines[first - 1].rstrip()
                    if bal == 0 and (prev.endswith(';') or prev.endswith('{') or prev.endswith('}')):
                        break
                    first -= 1
                if first <= 0 or bal != 0:
                    raise AnchorLost(f"{fid}: body-end: cannot delimit the multi-line tail expression")
                ind = len(blines[first]) - len(blines[first].lstrip())
                blines[first] = blines[first][:ind] + 'let res__tail = ' + blines[first][ind:]
                blines[last] = blines[last].rstrip() + ';'
                mlines[first] = mlines[first][:ind] + 'let res__tail = ' + mlines[first][ind:]
                rep['rewrites']['R23 name-tail-expression'] = 1
                inserts_after.setdefault(last, []).extend(ex.body_end + [Line(' ' * ind + 'res__tail', ('vspec', ex.vline))])
            else:
                inserts_before.setdefault(last, []).extend(ex.body_end)
    out = []
    for i, t in enumerate(sig.split('\n')):
        out.append(Line(t, ('repo', ex.relpath, first_line + i)))
    out.extend(ex.contract)
    for i, t in enumerate(blines):
        origin = ('repo', ex.relpath, body_first_line + i)
        if i in inserts_before:
            out.extend(inserts_before[i])
        cols = sorted(c for (li, c) in inline if li == i)
        if cols:
            pos = 0
            for c in cols:
                out.append(Line(t[pos:c], origin))
                out.extend(inline[(i, c)])
                pos = c
            out.append(Line(t[pos:], origin))
        else:
            out.append(Line(t, origin))
        if i == 0:
            # `hide(..)` statements must stay the first statements of a body: the vacuity probe goes after them
            bs = list(ex.body_start)
            nh = 0
            while nh < len(bs) and bs[nh].text.strip().startswith('hide('):
                nh += 1
            out.extend(bs[:nh])
            if vacuity and ex.contract:
                out.append(Line('        proof { assert(false); } // VACUITY-PROBE', ('vspec', ex.vline)))
            out.extend(bs[nh:])
        if i in inserts_after:
            out.extend(inserts_after[i])
    return out


def assemble(vspec_path, vacuity=False):
    parts = parse_vspec(vspec_path)
    report = []
    lines = []
    for kind, p in parts:
        if kind == 'text':
            lines.extend(p)
        else:
            lines.extend(render_extract(p, report, vacuity))
    return lines, report


# ---------------------------------------------------------------------------------------------

VERIF_FAIL_PAT = re.compile(
    r'postcondition not satisfied|precondition not satisfied|precondition not met|requires not satisfied|invariant not satisfied|assertion failed|'
    r'possible arithmetic (?:under|over)flow|possible (?:division|bit shift)|decreases not satisfied|'
    r'could not prove termination|possible overflow|recommendation not met|cannot show invariant|'
    r'possible truncation|split assertion failure|unreachable|panic|loop invariant|post-condition of closure|pre-condition of closure', re.I)
RLIMIT_PAT = re.compile(r'resource limit|rlimit|timed out|timeout', re.I)


def run_verus(lines, workdir, name, rlimit=30, threads=8, extra=(), wall=None):
    wall = wall or int(os.environ.get('VERIF_VERUS_WALL', '900'))
    os.makedirs(workdir, exist_ok=True)
    f = os.path.join(workdir, name + '.rs')
    with open(f, 'w') as fh:
        fh.write('\n'.join(l.text for l in lines) + '\n')
    cmd = ['verus', f, '--output-json', '--time', '--error-format=json',
           '--rlimit', str(rlimit), '--num-threads', str(threads), '--no-report-long-running', *extra]
    if '--multiple-errors' not in extra:
        cmd += ['--multiple-errors', '4']
    t0 = time.time()
    try:
        # own process group: on a wall-clock timeout the z3 children are killed too (nonlinear queries ignore rlimit)
        pr = subprocess.Popen(cmd, cwd=workdir, stdout=subprocess.PIPE, stderr=subprocess.PIPE, text=True, start_new_session=True)
        try:
            so, se = pr.communicate(timeout=wall)
        except subprocess.TimeoutExpired:
            import signal
            os.killpg(pr.pid, signal.SIGKILL)
            pr.communicate()
            raise
        p = subprocess.CompletedProcess(cmd, pr.returncode, so, se)
    except subprocess.TimeoutExpired:
        return {'status': 'undecided', 'reason': 'verus wall-clock timeout', 'cmd': ' '.join(cmd), 'wall_s': time.time() - t0,
                'verified': 0, 'errors': 0, 'failures': [], 'other_errors': ['timeout'], 'smt_ms': 0}
    wall = time.time() - t0
    res = {'cmd': ' '.join(cmd), 'wall_s': round(wall, 2), 'rc': p.returncode}
    try:
        js = json.loads(p.stdout)
    except Exception:
        js = {}
    vr = js.get('verification-results', {})
    res['verified'] = vr.get('verified', 0)
    res['errors'] = vr.get('errors', 0)
    tm = js.get('times-ms', {})
    res['smt_ms'] = tm.get('verification', {}).get('smt', {}).get('total', 0) if isinstance(tm.get('verification', {}).get('smt', {}), dict) else 0
    res['total_ms'] = tm.get('total', 0)
    failures, others, rlimits = [], [], []
    for l in p.stderr.split('\n'):
        l = l.strip()
        if not l.startswith('{'):
            continue
        try:
            d = json.loads(l)
        except Exception:
            continue
        if d.get('level') != 'error':
            continue
        msg = d.get('message', '')
        if msg.startswith('aborting due to'):
            continue
        spans = d.get('spans', [])
        prim = [s for s in spans if s.get('is_primary')] or spans
        where = []
        for s in spans:
            li = s.get('line_start', 0)
            origin = lines[li - 1].origin if 0 < li <= len(lines) else None
            where.append({'line': li, 'label': s.get('label'), 'text': (s.get('text') or [{}])[0].get('text', '').strip(),
                          'line_text': lines[li - 1].text if 0 < li <= len(lines) else '',
                          'origin': origin, 'primary': bool(s.get('is_primary'))})
        rec = {'message': msg, 'where': where, 'rendered': d.get('rendered', '')}
        li = prim[0].get('line_start', 0) if prim else 0
        rec['function'] = enclosing_fn(lines, li)
        if RLIMIT_PAT.search(msg):
            rlimits.append(rec)
        elif VERIF_FAIL_PAT.search(msg) and vr:
            failures.append(rec)
        else:
            others.append(rec)
    # Isolation pass: Verus sends the queries of several functions to the same solver process, and the extra queries it issues to
    # localise one failure change the solver state seen by the functions verified after it (observed: a pure lemma of unit graphlike
    # "failed" in the same run as a genuinely failing `adjoint`, and verified alone under every seed).  Every function reported as
    # failing or over its resource limit is therefore re-verified ALONE in a fresh process (--verify-function) before it is reported:
    # a failure that does not reproduce there was discharged by the verifier and is dropped (listed under `isolated_ok`).
    res['isolated_ok'] = []
    if (failures or rlimits) and not others and vr and '--verify-function' not in extra and not os.environ.get('VERIF_NO_ISOLATE'):
        bare = lambda fn: (fn or '').split('::')[-1]
        names = sorted({bare(r['function']) for r in failures + rlimits if r['function']})
        if 0 < len(names) <= 12:
            for nm in names:
                sub = run_verus(lines, workdir, name + '__iso', rlimit=rlimit, threads=threads,
                                extra=(*extra, '--verify-root', '--verify-function', '*' + nm), wall=wall)
                if sub.get('other_errors') or (sub.get('status') == 'undecided' and not sub.get('rlimit')) or (sub.get('verified', 0) + sub.get('errors', 0)) < 1:
                    continue        # the isolated run itself did not work (or matched no function): keep what the full run said
                again = [r for r in sub.get('failures', []) + sub.get('rlimit', []) if bare(r['function']) == nm]
                failures = [r for r in failures if bare(r['function']) != nm] + [r for r in sub.get('failures', []) if bare(r['function']) == nm]
                rlimits = [r for r in rlimits if bare(r['function']) != nm] + [r for r in sub.get('rlimit', []) if bare(r['function']) == nm]
                if not again:
                    res['isolated_ok'].append(nm)
            try:
                os.remove(os.path.join(workdir, name + '__iso.rs'))
            except OSError:
                pass
            res['wall_s'] = round(time.time() - t0, 2)
    res['failures'] = failures
    res['rlimit'] = rlimits
    res['other_errors'] = others
    if res['isolated_ok'] and not failures and not rlimits and not others and vr:
        res['status'] = 'verified'
        res['verified'] = res['verified'] + res['errors']
        res['errors'] = 0
        res['file'] = f
        return res
    if (vr.get('success') or ('--verify-function' in extra and vr and not vr.get('errors') and not failures and not rlimits and not others)) and p.returncode == 0:
        res['status'] = 'verified'
    elif others or not vr or vr.get('encountered-vir-error'):
        res['status'] = 'undecided'
        res['reason'] = 'verus rejected the assembled unit (syntax/type/unsupported construct): ' + '; '.join(o['message'] for o in others[:3]) if others else 'verus produced no result: ' + p.stderr[-500:]
    elif failures:
        res['status'] = 'failed'
    elif rlimits:
        res['status'] = 'undecided'
        res['reason'] = 'resource limit exceeded: ' + '; '.join(r['function'] or '?' for r in rlimits)
    else:
        res['status'] = 'undecided'
        res['reason'] = 'verus failed without a classified diagnostic: ' + p.stderr[-500:]
    res['file'] = f
    return res


_fn_re = re.compile(r'\b(?:fn)\s+([A-Za-z_][A-Za-z0-9_]*)')


def enclosing_fn(lines, li):
    """best-effort: nearest preceding `fn name` line (and impl header) in the assembled text"""
    fn = None
    impl = None
    for k in range(min(li, len(lines)) - 1, -1, -1):
        t = lines[k].text
        if fn is None:
            m = _fn_re.search(t)
            if m and not t.strip().startswith('//'):
                fn = m.group(1)
                continue
        if fn is not None:
            m = re.match(r'\s*impl\b(.*?)\{?\s*$', t)
            if m:
                impl = 'impl' + m.group(1).rstrip()
                break
            if re.match(r'\S', t) and not t.startswith('impl') and not t.startswith('}') and k < li - 1 and re.match(r'(pub\s+)?(proof\s+|spec\s+|open\s+|closed\s+|exec\s+)*fn\b', t):
                break
    if fn is None:
        return None
    return f"{impl}::{fn}" if impl else fn


def count_clauses(lines):
    """rough count of contract clauses in the assembled text (reported alongside Verus's own count)"""
    txt = '\n'.join(l.text for l in lines)
    return {k: len(re.findall(r'\b' + k + r'\b', mask(txt))) for k in ('requires', 'ensures', 'invariant', 'decreases', 'assert')}


def scan_trusted(lines):
    out = []
    pat = re.compile(r'external_body|assume_specification|\bassume\s*\(|\badmit\s*\(|external_fn_specification|external_type_specification|\baxiom\b|#\[verifier::external\b|broadcast use')
    msk = mask('\n'.join(l.text for l in lines)).split('\n')
    for i, m in enumerate(msk):
        if pat.search(m):
            # describe with the next fn/struct name
            desc = lines[i].text.strip()
            for k in range(i, min(i + 6, len(lines))):
                mm = re.search(r'\b(fn|struct|enum|type)\s+([A-Za-z_][A-Za-z0-9_:<>\[\], ]*)', lines[k].text)
                if mm:
                    desc = f"{pat.search(m).group(0).strip('( ')}: {mm.group(0).strip()}"
                    break
            out.append(desc)
    return out
