#!/usr/bin/env python3
"""check <property> [--tier quick|thorough] [--replay <file>]

exit 0  every obligation of the property was discharged on /repo's current working tree
        (open known findings are printed as KNOWN-FINDING lines)
exit 1  an obligation failed: `VIOLATION property=<id> replay=<path>` is printed
exit 2  undecided: anchor lost, construct outside the verifier's subset, tool crash, resource limit
"""
import hashlib
import json
import os
import re
import shutil
import sys
import time

HERE = os.path.dirname(os.path.abspath(__file__))
VERIF = os.path.dirname(HERE)
BUILD_DIR = os.path.join(VERIF, 'build', f'p{os.getpid()}')
sys.path.insert(0, HERE)
import vunit  # noqa: E402
import kunit  # noqa: E402
import search  # noqa: E402
from props import PROPS  # noqa: E402


def say(*a):
    print(*a, flush=True)


def slug(s):
    return re.sub(r'[^A-Za-z0-9]+', '-', s).strip('-')[:60]


def write_replay(pid, name, payload):
    rd = os.environ.get('VERIF_REPLAY_DIR') or os.path.join(VERIF, 'replay')
    os.makedirs(rd, exist_ok=True)
    p = os.path.join(rd, f'{pid}-{slug(name)}.json')
    with open(p, 'w') as fh:
        json.dump(payload, fh, indent=1)
    return p


def vacuity_lines(lines):
    """insert `proof { assert(false); }` right after the body brace of every extracted function with a contract"""
    out = []
    marks = []
    i = 0
    n = len(lines)
    while i < n:
        l = lines[i]
        out.append(l)
        i += 1
    return out, marks


def run_verus_unit(pid, unit, tier, evidence, problems):
    spec = os.path.join(VERIF, 'units', unit + '.vspec')
    workdir = BUILD_DIR      # per process: two checks running at the same time never share an assembled unit file
    rec = {'unit': unit, 'backend': 'verus'}
    evidence['units'].append(rec)
    try:
        lines, report = vunit.assemble(spec)
    except vunit.AnchorLost as e:
        rec['status'] = 'undecided'
        rec['reason'] = f'anchor lost: {e}'
        problems['undecided'].append(f'{unit}: anchor lost: {e}')
        return
    rec['extracted'] = report
    rec['clauses'] = vunit.count_clauses(lines)
    rec['trusted'] = vunit.scan_trusted(lines)
    rlimit = 60 if tier == 'quick' else 120
    r = vunit.run_verus(lines, workdir, unit, rlimit=rlimit, threads=int(os.environ.get('VERIF_THREADS', '12')))
    rec.update({k: r.get(k) for k in ('status', 'reason', 'verified', 'errors', 'wall_s', 'smt_ms', 'cmd')})
    if r.get('isolated_ok'):
        rec['isolated_ok'] = r['isolated_ok']     # reported in the full run, verified when re-run alone in a fresh solver process
    rec['failures'] = [{'function': f['function'], 'message': f['message'],
                        'where': [w for w in f['where']][:3]} for f in r.get('failures', [])]
    if r['status'] == 'verified':
        return
    if r['status'] == 'undecided':
        problems['undecided'].append(f"{unit}: {r.get('reason')}")
        return
    # failed obligations
    for f in r['failures']:
        prim = next((w for w in f['where'] if w['primary']), f['where'][0] if f['where'] else {})
        oblig = f"{unit}::{f['function']}: {f['message']}: {prim.get('text', '')}"
        # contract-level obligation (postcondition, precondition of a call in the repository's text, overflow, bounds,
        # reachable panic, termination) vs proof-internal obligation (loop invariant, inserted assert, precondition of an
        # inserted lemma call): the latter means "the proof no longer goes through", which by itself is undecided
        origin = prim.get('origin') or ()
        from_vspec = bool(origin) and str(origin[0]).startswith('vspec')
        msg = f['message']
        internal = bool(re.search(r'invariant|assertion failed|assert|pre-?condition of closure', msg, re.I)) or (('precondition' in msg or 'requires' in msg) and from_vspec)
        # an inserted assertion tagged `// contract` restates the function's postcondition (its witness): failing it is contract-level
        if internal and '// contract' in (prim.get('line_text') or ''):
            internal = False
        problems['failed'].append({'unit': unit, 'backend': 'verus', 'obligation': oblig, 'function': f['function'],
                                   'verifier_output': f['rendered'], 'origin': prim.get('origin'), 'internal': internal})


def run_kani_unit(pid, kspec, tier, evidence, problems):
    unit, rel = kspec['unit'], kspec['file']
    hs = list(kspec['harnesses'])
    if tier == 'thorough':
        hs += list(kspec.get('thorough_harnesses', []))
    if not hs:
        return      # this unit has harnesses in the thorough tier only
    rec = {'unit': unit, 'backend': 'kani', 'file': rel}
    evidence['units'].append(rec)
    info = kunit.run(unit, rel, hs, jobs=int(os.environ.get('VERIF_KANI_JOBS', '8')), timeout=kspec.get('timeout', 3000),
                     extra_args=kspec.get('extra_args', ()), extra_units=kspec.get('extra_units', ()))
    rec['cmd'] = info['cmd']
    rec['wall_s'] = info['wall_s']
    rec['harnesses'] = {}
    if info['compile_error'] and not info['harnesses']:
        rec['status'] = 'undecided'
        rec['reason'] = 'cargo kani did not run any harness: ' + info['compile_error'][:800]
        problems['undecided'].append(f"{unit}: {rec['reason']}")
        return
    bounded = set(kspec.get('bounded', []))
    finding_h = kspec.get('finding_harnesses', {})
    st = 'verified'
    for full, r in sorted(info['harnesses'].items()):
        h = full.split('::')[-1]
        rec['harnesses'][h] = {k: r[k] for k in ('status', 'checks', 'failed', 'covers_sat', 'covers_total', 'time_s')}
        rec['harnesses'][h]['bounded'] = h in bounded
        if h in finding_h:
            continue
        if r['status'] == 'SUCCESSFUL':
            if r['covers_sat'] != r['covers_total']:
                st = 'undecided'
                problems['undecided'].append(f"{unit}::{h}: vacuity guard: only {r['covers_sat']} of {r['covers_total']} cover properties satisfiable")
        elif r['status'] == 'FAILED' and r['failed'] > 0:
            st = 'failed'
            problems['failed'].append({'unit': unit, 'backend': 'kani', 'file': rel, 'harness': h, 'extra_units': list(kspec.get('extra_units', ())),
                                       'obligation': f"{unit}::{h}: " + '; '.join(r['failed_checks'][:4]),
                                       'verifier_output': '\n'.join(r['failed_checks'])})
        else:
            st = 'undecided' if st != 'failed' else st
            problems['undecided'].append(f"{unit}::{h}: kani status {r['status']} {r.get('error', '')}")
    for h in info['missing']:
        st = 'undecided' if st != 'failed' else st
        problems['undecided'].append(f"{unit}::{h}: harness did not run (crash, timeout or out of memory)")
    rec['status'] = st
    # known findings: the reproducing harness must still reach its cover
    for h, fid in finding_h.items():
        r = next((r for full, r in info['harnesses'].items() if full.split('::')[-1] == h), None)
        f = next((f for f in kunit.load_findings() if f['id'] == fid), None)
        if f is None or f.get('status') != 'open':
            continue
        if r is not None and r['covers_sat'] > 0:
            say(f"KNOWN-FINDING: property={pid} {f['id']} {f['what_fails']}")
            evidence['known_findings'].append({'id': fid, 'reproduced': True})
        else:
            say(f"note: known finding {fid} did not reproduce on this tree (cover unsatisfied or harness missing)")
            evidence['known_findings'].append({'id': fid, 'reproduced': False})


def finish(pid, tier, evidence, problems, t0, level):
    units = evidence['units']
    obligations = discharged = 0
    samples = []
    trusted = []
    fns = []
    bounded = []
    for u in units:
        if u['backend'] == 'verus':
            v, e = u.get('verified') or 0, u.get('errors') or 0
            obligations += v + e
            discharged += v
            trusted += [f"{u['unit']}: {t}" for t in u.get('trusted', [])]
            for x in u.get('extracted', []):
                fns.append({'function': x['item'], 'backend': 'verus', 'sha256_16': x['sha256_16'], 'repo_lines': x['repo_lines'],
                            'rewrites': x['rewrites']})
            if u.get('extracted'):
                samples.append({'unit': u['unit'], 'obligation_group': u['extracted'][0]['item'], 'clauses': u.get('clauses')})
        else:
            for h, r in u.get('harnesses', {}).items():
                if r.get('bounded'):
                    bounded.append({'harness': f"{u['unit']}::{h}", 'status': r['status'], 'checks': r['checks'], 'note': 'bounded stand-in, not counted as proved'})
                    continue
                obligations += r['checks']
                discharged += r['checks'] - r['failed'] if r['status'] in ('SUCCESSFUL', 'FAILED') else 0
                fns.append({'harness': f"{u['unit']}::{h}", 'backend': 'kani/cbmc+kissat', 'checks': r['checks'], 'time_s': r['time_s'],
                            'covers': f"{r['covers_sat']}/{r['covers_total']}"})
                if len(samples) < 6:
                    samples.append({'unit': u['unit'], 'harness': h, 'checks': r['checks'], 'status': r['status']})
    cfg = PROPS[pid]
    cov = {
        'obligations': obligations,
        'discharged': discharged,
        'checker_cmd': ' && '.join(sorted({u.get('cmd') or '' for u in units if u.get('cmd')}))[:4000],
        'trusted_base': sorted(set(trusted)) + cfg.get('trusted_notes', []),
        'functions_under_contract': fns,
        'units': [{k: v for k, v in u.items() if k not in ('extracted',)} for u in units],
        'bounded': bounded,
        'samples': samples or [{'note': 'no obligations generated'}],
        'not_covered': cfg.get('not_covered', []),
        'supported_range': cfg.get('supported_range', []),
        'known_findings': evidence['known_findings'],
        'bounded_search': evidence.get('search', {}),
        'undecided': problems['undecided'],
        'failed_obligations': [p['obligation'] for p in problems['failed']],
        'obligation_counting': 'Verus: functions/loops/lemmas reported verified by `verus --output-json` (each bundles all its requires/ensures/invariant/overflow/bounds/termination conditions); Kani: individual CBMC checks (assertions, overflow, bounds) of each harness',
    }
    ev = {
        'property_id': pid, 'tier': tier, 'seed': int(os.environ.get('VERIF_SEED', '0') or 0), 'level': level,
        'coverage': cov,
        'assumptions': cfg.get('assumptions', []),
        'wall_s': round(time.time() - t0, 1),
        'violations': len(problems['failed']),
    }
    ed = os.environ.get('VERIF_EVIDENCE_DIR') or os.path.join(VERIF, 'evidence')
    os.makedirs(ed, exist_ok=True)
    with open(os.path.join(ed, pid + '.json'), 'w') as fh:
        json.dump(ev, fh, indent=1)
    return ev


def main():
    args = sys.argv[1:]
    if not args:
        say(__doc__)
        return 2
    pid = args[0]
    tier = os.environ.get('VERIF_TIER', 'quick')
    replay = None
    i = 1
    while i < len(args):
        if args[i] == '--tier':
            tier = args[i + 1]
            i += 2
        elif args[i] == '--replay':
            replay = args[i + 1]
            i += 2
        else:
            i += 1
    if pid not in PROPS:
        say(f'unknown or unclaimed property {pid}')
        return 2
    if replay:
        return do_replay(pid, replay)
    t0 = time.time()
    cfg = PROPS[pid]
    evidence = {'units': [], 'known_findings': []}
    problems = {'failed': [], 'undecided': []}
    for unit in cfg.get('verus', []):
        run_verus_unit(pid, unit, tier, evidence, problems)
    if tier == 'thorough':
        for unit in cfg.get('verus_thorough', []):
            run_verus_unit(pid, unit, tier, evidence, problems)
    for ks in cfg.get('kani', []):
        run_kani_unit(pid, ks, tier, evidence, problems)
    if tier == 'thorough':
        for ks in cfg.get('kani_thorough', []):
            run_kani_unit(pid, ks, tier, evidence, problems)
        vac = search.vacuity(pid, cfg, say)
        evidence['vacuity'] = vac
        for v in vac.get('problems', []):
            problems['undecided'].append('vacuity: ' + v)
    # bounded executable-contract search on the real crate (stand-in for code outside the verifier's reach, and the
    # source of concrete failing inputs; never counted as proof)
    sr = search.run_search(pid, scale=(5 if tier == 'thorough' else 1)) if os.environ.get('VERIF_NO_SEARCH') != '1' else {'status': 'none', 'checks': []}
    evidence['search'] = {k: sr.get(k) for k in ('status', 'cmd', 'wall_s', 'scale')}
    evidence['search']['checks'] = [{k: c.get(k) for k in ('check', 'cases', 'failed')} for c in sr.get('checks', [])]
    if sr.get('status') in ('build-failed', 'error'):
        # the search crate uses the public API only; if it no longer builds the API changed: undecided, not an alarm
        evidence['search']['log'] = (sr.get('log') or '')[-800:]
        problems['undecided'].append(f"bounded search did not run ({sr.get('status')})")
    search_failing = [c for c in sr.get('checks', []) if c.get('failed')]
    for c in search_failing:
        problems['failed'].append({'unit': 'search', 'backend': 'search', 'function': c['check'],
                                   'obligation': f"search::{c['check']}: executable contract fails on a concrete input ({c['failed']} of {c['cases']} cases)",
                                   'verifier_output': c['first_failure'], 'failing_input': c['first_failure'], 'check': c['check']})
    # a failure of a proof-internal obligation alone is not a violation: it is one only together with a contract-level
    # failure or a concrete failing input from the search; otherwise the verdict is undecided (proof needs maintenance)
    hard = [p for p in problems['failed'] if not p.get('internal')]
    if problems['failed'] and not hard:
        for p in problems['failed']:
            problems['undecided'].append(f"proof-internal obligation no longer holds and the bounded search finds no failing input: {p['obligation'][:300]}")
        evidence['internal_only_failures'] = [p['obligation'] for p in problems['failed']]
        problems['failed'] = []
    ev = finish(pid, tier, evidence, problems, t0, cfg.get('level', 'proof'))
    if problems['failed']:
        # group by unit+function so one broken function gives one line
        seen = set()
        for p in problems['failed']:
            key = (p['unit'], p.get('function') or p.get('harness'))
            if key in seen:
                continue
            seen.add(key)
            payload = {'property': pid, 'failed_obligation': p['obligation'], 'backend': p['backend'], 'unit': p['unit'],
                       'verifier_output': p['verifier_output'], 'all_failed_obligations_of_unit':
                           [q['obligation'] for q in problems['failed'] if q['unit'] == p['unit']]}
            tail = ''
            if p['backend'] == 'kani':
                pb = kunit.playback(p['unit'], p['file'], p['harness'], None, extra_units=[tuple(x) for x in p.get('extra_units', [])])
                payload['kani_playback'] = {k: pb.get(k) for k in ('test_src', 'ran', 'failed_natively', 'playback_cmd')}
                payload['kani_playback_log'] = pb.get('log', '')[-2000:]
                payload['harness'] = p['harness']
                payload['file'] = p['file']
                payload['extra_units'] = p.get('extra_units', [])
                if not (pb.get('ran') and pb.get('failed_natively')):
                    tail = ' no-failing-input-found'
            elif p['backend'] == 'search':
                payload['search'] = {'check': p['check'], 'failing_input': p['failing_input']}
                say(f"  failing input: {p['failing_input'][:600]}")
            else:
                # Verus gives no counterexample: attach the concrete input found by the bounded search, if any
                if search_failing:
                    c = search_failing[0]
                    payload['search'] = {'check': c['check'], 'failing_input': c['first_failure'], 'all_failing_checks': [x['check'] for x in search_failing]}
                else:
                    payload['search'] = {'failing_input': None, 'searched': [c.get('check') for c in sr.get('checks', [])]}
                    tail = ' no-failing-input-found'
            path = write_replay(pid, key[0] + '-' + str(key[1]), payload)
            say(f"VIOLATION property={pid} replay={path}{tail}")
            say(f"  failed obligation: {p['obligation']}")
        return 1
    if problems['undecided']:
        for u in problems['undecided']:
            say(f'UNDECIDED property={pid}: {u}')
        return 2
    say(f"OK property={pid} tier={tier} obligations={ev['coverage']['obligations']} discharged={ev['coverage']['discharged']} wall_s={ev['wall_s']}")
    return 0


def do_replay(pid, path):
    d = json.load(open(path))
    say(f"replaying {path}: {d.get('failed_obligation')}")
    if d.get('backend') == 'kani' and d.get('kani_playback', {}).get('test_src'):
        # re-execute the stored concrete test on the current tree
        import subprocess
        xu = [tuple(x) for x in d.get('extra_units', [])]
        root = kunit.prepare(d['unit'], d['file'], xu)
        try:
            repo = os.path.join(root, 'repo')
            owner, owner_rel = d['unit'], d['file']
            for (u, rel) in [(d['unit'], d['file']), *xu]:
                if re.search(r'\bfn\s+' + re.escape(d.get('harness', '')) + r'\b', open(os.path.join(VERIF, 'kani', u + '.rs')).read()):
                    owner, owner_rel = u, rel
            f = os.path.join(repo, owner_rel)
            s = open(f).read()
            marker = f'mod verif_{owner} {{'
            pos = s.index(marker)
            from rustsrc import mask, match_brace
            close = match_brace(mask(s), pos + len(marker) - 1)
            s = s[:close] + '\n' + d['kani_playback']['test_src'] + '\n' + s[close:]
            open(f, 'w').write(s)
            tname = re.search(r'fn (kani_concrete_playback_\w+)', d['kani_playback']['test_src']).group(1)
            p = subprocess.run(['cargo', 'kani', 'playback', '-p', 'quizx', '-Z', 'concrete-playback', '--', tname], cwd=repo,
                               env=kunit.kani_env(), capture_output=True, text=True, timeout=1800)
            log = p.stdout + p.stderr
            say(log[-1500:])
            failed = bool(re.search(r'test result: FAILED|panicked at', log))
        finally:
            shutil.rmtree(root, ignore_errors=True)
        if failed:
            say(f"VIOLATION property={pid} replay={path}")
            return 1
        say('replay passes on the current tree')
        return 0
    if d.get('search', {}) and d['search'].get('failing_input'):
        ok = search.replay_input(pid, d['search'], say)
        if not ok:
            say(f"VIOLATION property={pid} replay={path}")
            return 1
        say('replay passes on the current tree')
        return 0
    # no input: re-run the unit and see whether the named obligation still fails
    evidence = {'units': [], 'known_findings': []}
    problems = {'failed': [], 'undecided': []}
    if d.get('backend') == 'verus':
        run_verus_unit(pid, d['unit'], 'quick', evidence, problems)
    if any(p['obligation'] == d.get('failed_obligation') for p in problems['failed']) or problems['failed']:
        say(f"VIOLATION property={pid} replay={path} no-failing-input-found")
        return 1
    say('the obligation is discharged on the current tree')
    return 0 if not problems['undecided'] else 2


if __name__ == '__main__':
    # housekeeping of the per-process work directories: stale ones (older than 6 h) go, this run's goes unless something failed
    import shutil as _sh, time as _t, glob as _g
    for _d in _g.glob(os.path.join(VERIF, 'build', 'p*')):
        try:
            if os.path.isdir(_d) and _t.time() - os.path.getmtime(_d) > 6 * 3600:
                _sh.rmtree(_d, ignore_errors=True)
        except OSError:
            pass
    _rc = main()
    if _rc == 0:
        _sh.rmtree(BUILD_DIR, ignore_errors=True)
    sys.exit(_rc)
