"""Native executable-contract search (bounded stand-in and replay aid) + vacuity re-runs.  See search/src/main.rs."""
import json
import os
import re
import shutil
import subprocess
import sys
import tempfile
import time

HERE = os.path.dirname(os.path.abspath(__file__))
VERIF = os.path.dirname(HERE)
sys.path.insert(0, HERE)
import vunit  # noqa: E402

REPO = os.environ.get('VERIF_REPO', '/repo')
CACHE = os.path.join(VERIF, '.cache', 'search-target')
HAS_SEARCH = {'C01', 'C02', 'C04', 'C12', 'C07', 'C09', 'C11', 'C10', 'C15', 'C16', 'C17', 'C18', 'C19'}


def run_search(pid, only=None, timeout=3600, scale=1):
    """build the search crate against the tree under check and run it; returns dict(status, checks:[...], cmd, wall_s, log)"""
    if pid not in HAS_SEARCH:
        return {'status': 'none', 'checks': []}
    t0 = time.time()
    base = os.environ.get('VERIF_TMP') or ('/var/tmp' if os.path.isdir('/var/tmp') else tempfile.gettempdir())
    root = tempfile.mkdtemp(prefix='verif-search-', dir=base)
    try:
        shutil.copytree(os.path.join(VERIF, 'search', 'src'), os.path.join(root, 'src'))
        toml = open(os.path.join(VERIF, 'search', 'Cargo.toml.in')).read().replace('@REPO@', os.path.abspath(REPO))
        open(os.path.join(root, 'Cargo.toml'), 'w').write(toml)
        lock = os.path.join(VERIF, 'search', 'Cargo.lock')
        if os.path.exists(lock):
            shutil.copy(lock, os.path.join(root, 'Cargo.lock'))
        # CARGO_INCREMENTAL=0: every run builds from a fresh scratch path, so incremental state is never reused and only piles up (25 GB in a day)
        env = dict(os.environ, CARGO_NET_OFFLINE='true', CARGO_TARGET_DIR=CACHE, VERIF_SEARCH_SCALE=str(scale), CARGO_INCREMENTAL='0')
        # the target directory (dependency cache) is shared between runs; two checks running at the same time against DIFFERENT trees would
        # overwrite each other's binary between build and execution, so build + private copy happen under a file lock
        import fcntl
        os.makedirs(CACHE, exist_ok=True)
        with open(os.path.join(CACHE, '.verif-build.lock'), 'w') as lk:
            fcntl.flock(lk, fcntl.LOCK_EX)
            b = subprocess.run(['cargo', 'build', '--offline', '-q'], cwd=root, env=env, capture_output=True, text=True, timeout=timeout)
            if b.returncode != 0:
                return {'status': 'build-failed', 'checks': [], 'log': (b.stdout + b.stderr)[-3000:], 'wall_s': round(time.time() - t0, 1)}
            exe = os.path.join(root, 'verif-search')
            shutil.copy2(os.path.join(CACHE, 'debug', 'verif-search'), exe)
        cmd = [exe, pid] + (['--only', only] if only else [])
        p = subprocess.run(cmd, cwd=root, env=env, capture_output=True, text=True, timeout=timeout)
        checks = []
        for l in p.stdout.split('\n'):
            l = l.strip()
            if l.startswith('{'):
                try:
                    checks.append(json.loads(l))
                except Exception:
                    pass
        st = 'ok' if p.returncode == 0 else ('failed' if p.returncode == 1 and checks else 'error')
        return {'status': st, 'checks': checks, 'scale': scale, 'cmd': f'VERIF_SEARCH_SCALE={scale} verif-search {pid}' + (f' --only {only}' if only else ''),
                'wall_s': round(time.time() - t0, 1), 'log': p.stderr[-1500:]}
    finally:
        shutil.rmtree(root, ignore_errors=True)


def find_counterexample(pid, failure, say):
    r = run_search(pid)
    bad = [c for c in r.get('checks', []) if c.get('failed')]
    if not bad:
        return {'searched': r.get('status'), 'checks': [c['check'] for c in r.get('checks', [])], 'failing_input': None}
    c = bad[0]
    return {'searched': r.get('status'), 'check': c['check'], 'failing_input': c['first_failure'], 'all_failing_checks': [x['check'] for x in bad],
            'cases': c['cases'], 'failed': c['failed']}


def replay_input(pid, found, say):
    """re-run the one executable contract that failed; True = passes now"""
    r = run_search(pid, only=found.get('check'))
    for c in r.get('checks', []):
        if c.get('failed'):
            say(f"  still failing: {c['check']}: {c['first_failure']}")
            return False
    return r.get('status') == 'ok'


def vacuity(pid, cfg, say):
    """Re-verify every Verus unit of the property with `assert(false)` planted at the start of each extracted,
    contracted function body: every planted assertion must FAIL (a contradictory `requires` would make it pass)."""
    out = {'planted': 0, 'failed_as_expected': 0, 'problems': []}
    for unit in cfg.get('verus', []):
        spec = os.path.join(VERIF, 'units', unit + '.vspec')
        try:
            lines, report = vunit.assemble(spec, vacuity=True)
        except vunit.AnchorLost as e:
            out['problems'].append(f'{unit}: anchor lost: {e}')
            continue
        planted = [i + 1 for i, l in enumerate(lines) if 'VACUITY-PROBE' in l.text]
        r = vunit.run_verus(lines, os.path.join(VERIF, 'build', f'p{os.getpid()}'), unit + '__vacuity', rlimit=30, threads=12,
                            extra=('--multiple-errors', '1'))
        hit = set()
        for f in r.get('failures', []):
            for w in f['where']:
                if w['line'] in planted:
                    hit.add(w['line'])
        out['planted'] += len(planted)
        out['failed_as_expected'] += len(hit)
        for ln in planted:
            if ln not in hit:
                fn = vunit.enclosing_fn(lines, ln)
                out['problems'].append(f'{unit}: assert(false) planted in {fn} did not fail (contradictory precondition or unreachable body?)')
    return out
