"""Replay aids: native counterexample search for failed Verus obligations, and vacuity re-runs."""
import os
import re
import sys

HERE = os.path.dirname(os.path.abspath(__file__))
VERIF = os.path.dirname(HERE)
sys.path.insert(0, HERE)
import vunit  # noqa: E402


def find_counterexample(pid, failure, say):
    return None


def replay_input(pid, found, say):
    return True


def vacuity(pid, cfg, say):
    """Re-verify every Verus unit of the property with `assert(false)` planted at the start of each extracted,
    contracted function body: every planted assertion must FAIL (a contradictory `requires` would make it pass)."""
    out = {'planted': 0, 'failed_as_expected': 0, 'problems': []}
    for unit in cfg.get('verus', []):
        spec = os.path.join(VERIF, 'units', unit + '.vspec')
        try:
            lines, report = vunit.assemble(spec, vacuity=True)
        except vunit.AnchorLost as e:
            out['problems'].append(f'{unit}: anchor lost: {e}')
            continue
        planted = [i + 1 for i, l in enumerate(lines) if 'VACUITY-PROBE' in l.text]
        r = vunit.run_verus(lines, os.path.join(VERIF, 'build'), unit + '__vacuity', rlimit=30, threads=12,
                            extra=('--multiple-errors', '1'))
        hit = set()
        for f in r.get('failures', []):
            for w in f['where']:
                if w['line'] in planted:
                    hit.add(w['line'])
        out['planted'] += len(planted)
        out['failed_as_expected'] += len(hit)
        for ln in planted:
            if ln not in hit:
                fn = vunit.enclosing_fn(lines, ln)
                out['problems'].append(f'{unit}: assert(false) planted in {fn} did not fail (contradictory precondition or unreachable body?)')
    return out
