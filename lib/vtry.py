import sys; sys.path.insert(0,'/verif/lib')
import vunit
u=sys.argv[1]
try:
    lines, rep = vunit.assemble(f'/verif/units/{u}.vspec')
except vunit.AnchorLost as e:
    print("ANCHOR LOST:", e); sys.exit(2)
r = vunit.run_verus(lines, '/verif/build', u, rlimit=int(sys.argv[2]) if len(sys.argv)>2 else 30)
print({k:v for k,v in r.items() if k not in ('failures','other_errors','rlimit','cmd')})
n=int(sys.argv[3]) if len(sys.argv)>3 else 6
for o in r['other_errors'][:n]: print(o['rendered'])
for o in r['failures'][:n]: print('[%s]'%o['function']); print(o['rendered'])
for o in r['rlimit'][:n]: print(o['rendered'])
