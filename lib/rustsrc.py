"""Minimal, comment/string-aware locator for Rust items.

Not a parser: it masks comments, string and char literals, then finds items by keyword + name and
matches braces on the mask.  Every text it returns is a byte-for-byte slice of the original file.
"""
import re


class RustSrcError(Exception):
    pass


def mask(src: str) -> str:
    """Return a string of the same length where comments, string literals and char literals are
    replaced by spaces (newlines kept), so that brace matching and keyword search are reliable."""
    out = list(src)
    i, n = 0, len(src)

    def blank(a, b):
        for k in range(a, b):
            if out[k] != '\n':
                out[k] = ' '

    while i < n:
        c = src[i]
        if c == '/' and i + 1 < n and src[i + 1] == '/':
            j = src.find('\n', i)
            j = n if j < 0 else j
            blank(i, j)
            i = j
        elif c == '/' and i + 1 < n and src[i + 1] == '*':
            depth, j = 1, i + 2
            while j < n and depth:
                if src.startswith('/*', j):
                    depth += 1
                    j += 2
                elif src.startswith('*/', j):
                    depth -= 1
                    j += 2
                else:
                    j += 1
            blank(i, j)
            i = j
        elif c == '"' or (c in 'rb' and re.match(r'(?:b?r#*"|b")', src[i:i + 8]) and (i == 0 or not (src[i - 1].isalnum() or src[i - 1] == '_'))):
            m = re.match(r'b?r(#*)"', src[i:i + 8])
            if m:
                hashes = m.group(1)
                start = i + m.end()
                j = src.find('"' + hashes, start)
                j = n if j < 0 else j + 1 + len(hashes)
                blank(i, j)
                i = j
            else:
                j = i + 1 if c == '"' else i + 2
                while j < n and src[j] != '"':
                    j += 2 if src[j] == '\\' else 1
                j = min(n, j + 1)
                blank(i + 1, j - 1)   # keep the quotes so expressions stay well-formed
                i = j
        elif c == "'":
            m = re.match(r"'(?:\\(?:u\{[0-9a-fA-F_]+\}|x[0-9a-fA-F]{2}|.)|[^\\'])'", src[i:i + 14])
            if m:
                blank(i + 1, i + m.end() - 1)
                i += m.end()
            else:
                i += 1   # lifetime
        else:
            i += 1
    return ''.join(out)


def match_brace(msk: str, open_idx: int) -> int:
    """index of the brace closing the one at open_idx (on the mask)"""
    pairs = {'{': '}', '(': ')', '[': ']'}
    o = msk[open_idx]
    c = pairs[o]
    depth = 0
    for k in range(open_idx, len(msk)):
        ch = msk[k]
        if ch == o:
            depth += 1
        elif ch == c:
            depth -= 1
            if depth == 0:
                return k
    raise RustSrcError(f"unbalanced {o} at offset {open_idx}")


def _norm(s: str) -> str:
    s = re.sub(r'\s+', ' ', s.strip())
    s = re.sub(r'\s*([<>,:&()\[\]])\s*', r'\1', s)
    return s


class Item:
    def __init__(self, kind, name, start, sig_end, body_open, end, header):
        self.kind = kind          # 'fn' | 'impl' | 'struct' | 'enum' | 'trait' | 'const' | 'type' | 'mod'
        self.name = name
        self.start = start        # first byte (after attributes / doc comments are skipped — see attrs_start)
        self.sig_end = sig_end    # byte index of the '{' opening the body, or of ';'
        self.body_open = body_open
        self.end = end            # one past the closing '}' or ';'
        self.header = header      # normalised header text (for impl: "impl Add for Dyadic")
        self.attrs_start = start


class RustFile:
    def __init__(self, path, text=None):
        self.path = path
        self.src = open(path).read() if text is None else text
        self.msk = mask(self.src)

    # -- generic item scan inside [lo, hi) at brace depth 0 relative to that range ---------------
    _item_re = re.compile(
        r'(?P<vis>\bpub(?:\s*\([^)]*\))?\s+)?'
        r'(?P<quals>(?:(?:default|const|async|unsafe|extern(?:\s*"[^"]*")?)\s+)*)'
        r'\b(?P<kw>fn|impl|struct|enum|trait|mod|type|const|static|union)\b')

    def items(self, lo=0, hi=None):
        hi = len(self.src) if hi is None else hi
        msk = self.msk
        res = []
        i = lo
        while i < hi:
            m = self._item_re.search(msk, i, hi)
            if not m:
                break
            kw = m.group('kw')
            start = m.start()
            # `const fn` is handled by quals; a bare `const`/`static` item:
            # find end: first '{' or ';' at paren/bracket/angle-insensitive depth
            k = m.end()
            # name
            nm = None
            if kw in ('fn', 'struct', 'enum', 'trait', 'mod', 'type', 'const', 'static', 'union'):
                mm = re.match(r'\s*(?:mut\s+)?([A-Za-z_][A-Za-z0-9_]*)', msk[k:k + 200])
                nm = mm.group(1) if mm else None
            # scan to '{' or ';' skipping (...) and [...] groups
            j = k
            body_open = None
            while j < hi:
                ch = msk[j]
                if ch in '([':
                    j = match_brace(msk, j) + 1
                    continue
                if ch == '{':
                    body_open = j
                    break
                if ch == ';':
                    break
                if ch == '=' and kw in ('const', 'static', 'type'):
                    # initializer may contain braces; scan to ';' at depth 0
                    d = 0
                    while j < hi:
                        c2 = msk[j]
                        if c2 in '([{':
                            j = match_brace(msk, j) + 1
                            continue
                        if c2 == ';':
                            break
                        j += 1
                    break
                j += 1
            if j >= hi:
                break
            if body_open is not None:
                end = match_brace(msk, body_open) + 1
                # tuple struct / unit struct handled by ';' branch; `struct X {..}` fine
            else:
                end = j + 1
            header = _norm(self.src[start:(body_open if body_open is not None else j)])
            it = Item(kw, nm, start, (body_open if body_open is not None else j), body_open, end, header)
            # attributes and doc comments immediately above
            it.attrs_start = self._attrs_start(start)
            res.append(it)
            i = end
        return res

    def _attrs_start(self, start):
        # walk back over whitespace, `#[...]` attributes and `///` doc comments
        src = self.src
        pos = start
        while True:
            # beginning of the line containing pos
            ls = src.rfind('\n', 0, pos) + 1
            if src[ls:pos].strip():
                return pos  # something else on the same line before the item
            # previous line
            if ls == 0:
                return ls
            pls = src.rfind('\n', 0, ls - 1) + 1
            prev = src[pls:ls - 1].strip()
            if prev.startswith('///') or prev.startswith('#[') or prev.startswith('//!'):
                pos = pls
                continue
            # multi-line attribute ending with `)]`
            if prev.endswith(')]') or prev.endswith(']'):
                # search upward for the line starting the attribute
                q = pls
                found = None
                for _ in range(12):
                    line = src[q:src.find('\n', q)].strip()
                    if line.startswith('#['):
                        found = q
                        break
                    if q == 0:
                        break
                    q = src.rfind('\n', 0, q - 1) + 1
                if found is not None:
                    pos = found
                    continue
            return ls

    # -- lookups -------------------------------------------------------------------------------
    def find_impls(self, header):
        want = _norm(header)
        out = []

        def rec(lo, hi):
            for it in self.items(lo, hi):
                if it.kind == 'impl' and it.header == want:
                    out.append(it)
                elif it.kind == 'mod' and it.body_open is not None and it.name not in ('test', 'tests'):
                    rec(it.body_open + 1, it.end - 1)
        rec(0, len(self.src))
        return out

    def find_fn(self, scope, name):
        """scope: None (top level / non-test modules), 'impl <header>' or 'trait <Name>'"""
        cands = []
        if scope is None:
            def rec(lo, hi):
                for it in self.items(lo, hi):
                    if it.kind == 'fn' and it.name == name:
                        cands.append(it)
                    elif it.kind == 'mod' and it.body_open is not None and it.name not in ('test', 'tests'):
                        rec(it.body_open + 1, it.end - 1)
            rec(0, len(self.src))
        else:
            if scope.startswith('trait '):
                tn = scope.split()[1]
                blocks = [it for it in self.items() if it.kind == 'trait' and it.name == tn]
            else:
                blocks = self.find_impls(scope)
            if not blocks:
                raise RustSrcError(f"{self.path}: no block `{scope}`")
            for b in blocks:
                for it in self.items(b.body_open + 1, b.end - 1):
                    if it.kind == 'fn' and it.name == name:
                        cands.append(it)
        if len(cands) != 1:
            raise RustSrcError(f"{self.path}: expected exactly one fn `{name}` in `{scope}`, found {len(cands)}")
        return cands[0]

    def find_item(self, kind, name):
        cands = []

        def rec(lo, hi):
            for it in self.items(lo, hi):
                if it.kind == kind and it.name == name:
                    cands.append(it)
                elif it.kind == 'mod' and it.body_open is not None and it.name not in ('test', 'tests'):
                    rec(it.body_open + 1, it.end - 1)
        rec(0, len(self.src))
        if len(cands) != 1:
            raise RustSrcError(f"{self.path}: expected exactly one {kind} `{name}`, found {len(cands)}")
        return cands[0]

    def line_of(self, off):
        return self.src.count('\n', 0, off) + 1


_loop_re = re.compile(r'\b(for|while|loop)\b')


def loops_in(msk_body: str):
    """Offsets (relative to the given masked text) of loop keywords and of the '{' opening each loop
    body, in textual order.  `for<'a>` higher-ranked bounds and `impl X for Y` do not occur in bodies
    we handle; a `for` immediately preceded by `impl ... ` on the same statement is skipped."""
    res = []
    for m in _loop_re.finditer(msk_body):
        kw = m.group(1)
        k = m.end()
        # label check / identifier boundary already ensured by \b ; skip `.for` etc.
        prev = msk_body[:m.start()].rstrip()
        if prev.endswith('.') or prev.endswith('::'):
            continue
        j = k
        ok = False
        while j < len(msk_body):
            ch = msk_body[j]
            if ch in '([':
                j = match_brace(msk_body, j) + 1
                continue
            if ch == '{':
                ok = True
                break
            if ch == ';':
                break
            j += 1
        if ok:
            res.append((m.start(), j, kw))
    return res
