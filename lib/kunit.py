"""Run Kani contract harnesses against the real crate.

The working tree of /repo is copied to a scratch directory, the harness module /verif/kani/<unit>.rs is
appended to the file it verifies as `#[cfg(kani)] mod verif_<unit> { ... }` (a child module: it sees
private items, nothing inside existing items is touched), `cargo kani` is run there, and the copy is
removed.  Dependencies are cached in /verif/.cache/kani-target; the crate itself is rebuilt every run.
"""
import json
import os
import re
import shutil
import subprocess
import tempfile
import time

REPO = os.environ.get('VERIF_REPO', '/repo')
VERIF = os.path.dirname(os.path.dirname(os.path.abspath(__file__)))
CACHE = os.path.join(VERIF, '.cache', 'kani-target')


def scratch_root():
    base = os.environ.get('VERIF_TMP') or ('/var/tmp' if os.path.isdir('/var/tmp') else tempfile.gettempdir())
    return tempfile.mkdtemp(prefix='verif-kani-', dir=base)


def load_findings():
    p = os.path.join(VERIF, 'known_findings.json')
    if not os.path.exists(p):
        return []
    return json.load(open(p)).get('findings', [])


def prepare(unit, target_rel, extra_units=()):
    """copy the tree, append harness module(s); returns scratch dir"""
    root = scratch_root()
    dst = os.path.join(root, 'repo')
    subprocess.run(['rsync', '-a', '--exclude', 'target', '--exclude', '.git', '--exclude', 'pybindings/target',
                    REPO.rstrip('/') + '/', dst + '/'], check=True)
    for (u, rel) in [(unit, target_rel), *extra_units]:
        src = open(os.path.join(VERIF, 'kani', u + '.rs')).read()
        # known-finding carve-outs: `//@KNOWN-FINDING-CARVEOUT <key>` becomes an assume of the complement of
        # the finding's region, only for findings that are still open
        def carve(m):
            key = m.group(1)
            conds = [f['kani_region'] for f in load_findings()
                     if f.get('status') == 'open' and f.get('carveout_key') == key and f.get('kani_region')]
            return ''.join(f'kani::assume(!({c}));' for c in conds)
        def carve_all(m):
            key, vars_ = m.group(1), m.group(2).split()
            conds = [f['kani_region'] for f in load_findings()
                     if f.get('status') == 'open' and f.get('carveout_key') == key and f.get('kani_region')]
            pat = re.compile(r'\bd\.')
            return ''.join('kani::assume(!(' + pat.sub(v + '.', c) + '));' for c in conds for v in vars_)
        src = re.sub(r'//@KNOWN-FINDING-CARVEOUT-ALL (\S+)([^\n]*)', carve_all, src)
        src = re.sub(r'//@KNOWN-FINDING-CARVEOUT (\S+)', carve, src)
        with open(os.path.join(dst, rel), 'a') as fh:
            fh.write(f'\n#[cfg(kani)]\nmod verif_{u} {{\n{src}\n}}\n')
    return root


def kani_env():
    env = dict(os.environ)
    env['CARGO_NET_OFFLINE'] = 'true'
    env['CARGO_TARGET_DIR'] = CACHE
    return env


def parse_output(text):
    """-> {harness: {status, checks, failed, covers_sat, covers_total, time_s, failed_checks:[...]}}"""
    res = {}
    thread_h = {}
    cur = None
    single = None
    for line in text.split('\n'):
        m = re.match(r'(?:Thread (\d+): )?Checking harness (\S+?)\.\.\.', line)
        if m:
            t = m.group(1) or 'x'
            thread_h[t] = m.group(2)
            res.setdefault(m.group(2), {'status': 'unknown', 'checks': 0, 'failed': 0, 'covers_sat': 0, 'covers_total': 0,
                                        'time_s': 0.0, 'failed_checks': [], 'unsat_covers': []})
            if m.group(1) is None:
                cur = m.group(2)
            continue
        m = re.match(r'Thread (\d+):\s*$', line)
        if m:
            cur = thread_h.get(m.group(1))
            continue
        if cur is None:
            continue
        r = res[cur]
        m = re.search(r'\*\* (\d+) of (\d+) failed', line)
        if m:
            r['failed'], r['checks'] = int(m.group(1)), int(m.group(2))
        m = re.search(r'\*\* (\d+) of (\d+) cover properties satisfied', line)
        if m:
            r['covers_sat'], r['covers_total'] = int(m.group(1)), int(m.group(2))
        m = re.match(r'Failed Checks: (.*)', line)
        if m:
            r['failed_checks'].append(m.group(1).strip())
        m = re.match(r'VERIFICATION:- (\w+)', line)
        if m:
            r['status'] = m.group(1)
        m = re.match(r'Verification Time: ([0-9.]+)s', line)
        if m:
            r['time_s'] = float(m.group(1))
        if 'CBMC failed' in line or 'out of memory' in line.lower() or 'CBMC timed out' in line:
            r['status'] = 'ERROR'
            r.setdefault('error', line.strip())
    return res


def locked_run(cmd, **kw):
    """cargo kani compiles into the shared target directory and then runs CBMC on the artefacts it left there: two invocations at the same
    time against different trees could verify each other's artefacts, so Kani invocations are serialised by a file lock"""
    import fcntl
    os.makedirs(CACHE, exist_ok=True)
    with open(os.path.join(CACHE, '.verif-kani.lock'), 'w') as lk:
        fcntl.flock(lk, fcntl.LOCK_EX)
        return subprocess.run(cmd, **kw)


def run(unit, target_rel, harnesses, jobs=8, timeout=3600, extra_args=(), extra_units=(), keep=False):
    t0 = time.time()
    root = prepare(unit, target_rel, extra_units)
    repo = os.path.join(root, 'repo')
    cmd = ['cargo', 'kani', '-p', 'quizx', '--solver', 'kissat', '--output-format', 'terse', '-Z', 'function-contracts',
           '-j', str(jobs), *extra_args]
    for h in harnesses:
        cmd += ['--harness', h]
    out = ''
    try:
        p = locked_run(cmd, cwd=repo, env=kani_env(), capture_output=True, text=True, timeout=timeout)
        out = p.stdout + '\n' + p.stderr
        rc = p.returncode
    except subprocess.TimeoutExpired as e:
        out = (e.stdout or b'').decode(errors='replace') if isinstance(e.stdout, bytes) else (e.stdout or '')
        rc = -9
    res = parse_output(out)
    info = {'cmd': 'CARGO_NET_OFFLINE=true ' + ' '.join(cmd), 'rc': rc, 'wall_s': round(time.time() - t0, 1), 'harnesses': res,
            'compile_error': None, 'scratch': root}
    if not res:
        errs = [l for l in out.split('\n') if l.startswith('error')]
        info['compile_error'] = '\n'.join(errs[:10]) or out[-1500:]
    if not keep:
        shutil.rmtree(root, ignore_errors=True)
    info['raw_tail'] = out[-3000:]
    # exact-name matching: kani's --harness is a substring filter, so keep only what was asked for
    want = set(harnesses)
    info['harnesses'] = {h: r for h, r in res.items() if h.split('::')[-1] in want}
    missing = want - {h.split('::')[-1] for h in info['harnesses']}
    info['missing'] = sorted(missing)
    return info


def playback(unit, target_rel, harness, replay_path, timeout=1800, extra_units=()):
    """Get Kani's concrete counterexample for a failing harness as a unit test, splice it into the harness
    module of a fresh scratch copy and execute it natively.  Returns dict(test_src, ran, failed_natively, log)."""
    root = prepare(unit, target_rel, extra_units)
    repo = os.path.join(root, 'repo')
    out = {'test_src': None, 'ran': False, 'failed_natively': None, 'log': ''}
    try:
        cmd = ['cargo', 'kani', '-p', 'quizx', '--solver', 'kissat', '--output-format', 'terse', '-Z', 'function-contracts',
               '-Z', 'concrete-playback', '--concrete-playback=print', '--harness', harness]
        p = locked_run(cmd, cwd=repo, env=kani_env(), capture_output=True, text=True, timeout=timeout)
        txt = p.stdout + '\n' + p.stderr
        # the printed test is inside a ```rust fenced block (possibly several: one per harness matching the filter)
        blocks = re.findall(r'```(?:rust)?\n(.*?)```', txt, flags=re.S)
        blocks = [b for b in blocks if f'fn kani_concrete_playback_{harness}' in b] or blocks
        # one test is printed per failed check AND per satisfied cover: prefer the counterexamples of failed checks
        blocks = [b for b in blocks if 'Check for `cover`' not in b and 'cover condition' not in b] or blocks
        if not blocks:
            out['log'] = 'no concrete playback test printed\n' + txt[-2000:]
            return out
        test_src = blocks[0]
        out['test_src'] = test_src
        m = re.search(r'fn (kani_concrete_playback_\w+)', test_src)
        tname = m.group(1)
        # splice into the harness module (before its closing brace = end of file)
        # splice into the appended module that defines the harness (so that `super::*` resolves as in the harness)
        owner, owner_rel = unit, target_rel
        for (u, rel) in [(unit, target_rel), *extra_units]:
            if re.search(r'\bfn\s+' + re.escape(harness) + r'\b', open(os.path.join(VERIF, 'kani', u + '.rs')).read()):
                owner, owner_rel = u, rel
        f = os.path.join(repo, owner_rel)
        s = open(f).read()
        marker = f'mod verif_{owner} {{'
        pos = s.index(marker)
        from rustsrc import mask, match_brace
        close = match_brace(mask(s), pos + len(marker) - 1)
        s = s[:close] + '\n' + test_src + '\n' + s[close:]
        open(f, 'w').write(s)
        cmd2 = ['cargo', 'kani', 'playback', '-p', 'quizx', '-Z', 'concrete-playback', '--', tname]
        p2 = locked_run(cmd2, cwd=repo, env=kani_env(), capture_output=True, text=True, timeout=timeout)
        log = p2.stdout + '\n' + p2.stderr
        out['ran'] = 'running 1 test' in log or 'test result' in log
        out['failed_natively'] = bool(re.search(r'test result: FAILED|panicked at', log))
        keep = [l for l in log.split('\n') if not l.lstrip().startswith('Running `') and ' -L dependency=' not in l]
        out['log'] = '\n'.join(keep)[-3000:]
        out['playback_cmd'] = 'CARGO_NET_OFFLINE=true ' + ' '.join(cmd2)
    finally:
        shutil.rmtree(root, ignore_errors=True)
    return out
