//! C17: all 0/1 matrices up to 3x4 (plus a few larger ones), every block size, both reduction modes, against brute force.
use crate::{guard, Ctx};
use quizx::linalg::{Mat2, RowOps};

type M = Vec<Vec<u8>>;
fn mats(r: usize, c: usize) -> Vec<M> {
    (0u32..(1 << (r * c))).map(|bits| (0..r).map(|i| (0..c).map(|j| (bits >> (i * c + j) & 1) as u8).collect()).collect()).collect()
}
fn rows_of(m: &Mat2) -> M { (0..m.num_rows()).map(|i| m[i].clone()).collect() }
fn mul(a: &M, b: &M) -> M {
    let (n, k, c) = (a.len(), b.len(), if b.is_empty() { 0 } else { b[0].len() });
    (0..n).map(|i| (0..c).map(|j| (0..k).fold(0u8, |s, t| s ^ (a[i][t] & b[t][j]))).collect()).collect()
}
fn ident(n: usize) -> M { (0..n).map(|i| (0..n).map(|j| (i == j) as u8).collect()).collect() }
/// rank by brute force: size of the row span is 2^rank
fn brute_rank(m: &M) -> usize {
    let c = if m.is_empty() { 0 } else { m[0].len() };
    let mut span = std::collections::HashSet::new();
    for mask in 0u32..(1 << m.len()) {
        let mut v = vec![0u8; c];
        for (i, row) in m.iter().enumerate() { if mask >> i & 1 == 1 { for j in 0..c { v[j] ^= row[j]; } } }
        span.insert(v);
    }
    span.len().trailing_zeros() as usize
}
fn span_of(m: &M) -> std::collections::BTreeSet<Vec<u8>> {
    let c = if m.is_empty() { 0 } else { m[0].len() };
    let mut span = std::collections::BTreeSet::new();
    for mask in 0u32..(1 << m.len()) {
        let mut v = vec![0u8; c];
        for (i, row) in m.iter().enumerate() { if mask >> i & 1 == 1 { for j in 0..c { v[j] ^= row[j]; } } }
        span.insert(v);
    }
    span
}
/// (reduced) echelon form with `rank` non-zero rows?
fn echelon(m: &M, rank: usize, full: bool) -> Result<(), String> {
    let mut last: isize = -1;
    for (i, row) in m.iter().enumerate() {
        let lead = row.iter().position(|&x| x != 0);
        if i < rank {
            let l = lead.ok_or(format!("row {} is zero but rank {} was reported", i, rank))?;
            if (l as isize) <= last { return Err(format!("leading 1 of row {} is not right of the previous one", i)); }
            last = l as isize;
            for (k, other) in m.iter().enumerate() { if k != i && other[l] != 0 && (k > i || full) { return Err(format!("pivot column {} is not clear in row {}", l, k)); } }
        } else if lead.is_some() { return Err(format!("row {} is non-zero but rank {} was reported", i, rank)); }
    }
    Ok(())
}
/// a proxy that records the operations
struct Log(Vec<(usize, usize)>);
impl RowOps for Log { fn row_add(&mut self, a: usize, b: usize) { self.0.push((a, b)); } fn row_swap(&mut self, _: usize, _: usize) { panic!("gauss reported a swap"); } }

pub fn run(cx: &mut Ctx) {
    let mut all: Vec<M> = vec![];
    for r in 1..=3 { for c in 1..=4 { all.extend(mats(r, c)); } }
    // a few larger shapes (sampled deterministically)
    let mut seed = 0x2545F4914F6CDD1Du64;
    for &(r, c) in &[(4usize, 5usize), (5, 5), (4, 7), (6, 6)] { for _ in 0..150 * crate::scale() as usize {
        all.push((0..r).map(|_| (0..c).map(|_| { seed ^= seed << 13; seed ^= seed >> 7; seed ^= seed << 17; (seed >> 33 & 1) as u8 }).collect()).collect());
    } }
    cx.check("gauss_every_blocksize", |cb| {
        for m in &all { let c = m[0].len(); for bs in 1..=c + 1 { for full in [false, true] {
            let mut a = Mat2::new(m.clone());
            let mut px = Mat2::id(m.len());
            let mut log = Log(vec![]);
            let r = guard(|| { let mut b = Mat2::new(m.clone()); let rk = b.gauss_x(full, bs, &mut log); (rk, b) });
            let rank = match guard(|| a.gauss_x(full, bs, &mut px)) { Ok(r) => r, Err(e) => { cb(&|| format!("{:?} bs={} full={}", m, bs, full), Err(e)); continue; } };
            let res = rows_of(&a);
            let mut verdict = echelon(&res, rank, full);
            if verdict.is_ok() && rank != brute_rank(m) { verdict = Err(format!("rank {} reported, true rank {}", rank, brute_rank(m))); }
            if verdict.is_ok() && span_of(&res) != span_of(m) { verdict = Err("the result does not have the row space of the input".into()); }
            if verdict.is_ok() && mul(&rows_of(&px), m) != res { verdict = Err("the proxy (identity, transformed by the reported row operations) times the input is not the result".into()); }
            if verdict.is_ok() { if let Ok((rk2, b)) = &r {
                // replay the logged additions on a fresh copy
                let mut rep = m.clone();
                for &(s, t) in &log.0 { if s == t { verdict = Err(format!("row {} added to itself", s)); } let src = rep[s].clone(); for j in 0..c { rep[t][j] ^= src[j]; } }
                if verdict.is_ok() && (rep != rows_of(b) || *rk2 != rank) { verdict = Err("replaying the reported row additions on the input does not give the result".into()); }
            } }
            cb(&|| format!("{:?} blocksize={} full_reduce={}", m, bs, full), verdict.map_err(|e| format!("{} (result {:?})", e, res)));
        } } }
    });
    cx.check("gauss_rank_wrappers", |cb| {
        for m in &all {
            let a = Mat2::new(m.clone());
            let want = brute_rank(m);
            let r = guard(|| a.rank());
            cb(&|| format!("rank {:?}", m), match r { Ok(r) if r == want => Ok(()), Ok(r) => Err(format!("rank() = {}, true rank {}", r, want)), Err(e) => Err(e) });
            for full in [false, true] {
                let mut b = Mat2::new(m.clone());
                let r = guard(|| b.gauss(full));
                let v = match r { Ok(r) => echelon(&rows_of(&b), r, full).and(if r == want { Ok(()) } else { Err(format!("gauss() = {}, true rank {}", r, want)) }), Err(e) => Err(e) };
                cb(&|| format!("gauss({}) {:?}", full, m), v);
            }
        }
    });
    cx.check("inverse", |cb| {
        for m in all.iter().filter(|m| m.len() == m[0].len()) {
            let a = Mat2::new(m.clone());
            let n = m.len();
            let v = match guard(|| a.inverse()) {
                Err(e) => Err(e),
                Ok(None) => if brute_rank(m) < n { Ok(()) } else { Err("None for an invertible matrix".into()) },
                Ok(Some(inv)) => { let i = rows_of(&inv); if brute_rank(m) < n { Err("Some(..) for a singular matrix".into()) } else if mul(&i, m) != ident(n) || mul(m, &i) != ident(n) { Err(format!("returned {:?}, which is not a two-sided inverse", i)) } else { Ok(()) } }
            };
            cb(&|| format!("inverse {:?}", m), v);
        }
        for m in all.iter().filter(|m| m.len() != m[0].len()).take(200) { let a = Mat2::new(m.clone()); cb(&|| format!("inverse (non-square) {:?}", m), match guard(|| a.inverse()) { Ok(None) => Ok(()), Ok(Some(_)) => Err("Some(..) for a non-square matrix".into()), Err(e) => Err(e) }); }
    });
    cx.check("inverse_large", |cb| {
        // invertible by construction: random row additions applied to the identity (dense for larger n)
        let mut sd = 0xD1B54A32D192ED03u64;
        let mut nx = move |m: usize| { sd ^= sd << 13; sd ^= sd >> 7; sd ^= sd << 17; (sd >> 11) as usize % m };
        for &n in &[8usize, 12, 16, 20, 24, 32] { for rep in 0..6 * crate::scale() as usize {
            let mut m = ident(n);
            for _ in 0..n * n { let (a, b) = (nx(n), nx(n)); if a != b { let src = m[a].clone(); for j in 0..n { m[b][j] ^= src[j]; } } }
            let a = Mat2::new(m.clone());
            let v = match guard(|| a.inverse()) { Err(e) => Err(e), Ok(None) => Err("None for a matrix that is invertible by construction".into()),
                Ok(Some(inv)) => { let i = rows_of(&inv); if mul(&i, &m) == ident(n) && mul(&m, &i) == ident(n) { Ok(()) } else { Err("the returned matrix is not a two-sided inverse".into()) } } };
            cb(&|| format!("{}x{} product of random row additions, instance {} ({} ones)", n, n, rep, m.iter().map(|r| r.iter().filter(|&&x| x == 1).count()).sum::<usize>()), v);
            let mut sing = m.clone(); sing[n - 1] = sing[0].clone();
            let s = Mat2::new(sing);
            cb(&|| format!("{}x{} singular (repeated row), instance {}", n, n, rep), match guard(|| s.inverse()) { Ok(None) => Ok(()), Ok(Some(_)) => Err("Some(..) for a singular matrix".into()), Err(e) => Err(e) });
            let r = guard(|| a.rank());
            cb(&|| format!("rank of {}x{} invertible, instance {}", n, n, rep), match r { Ok(r) if r == n => Ok(()), Ok(r) => Err(format!("rank {}", r)), Err(e) => Err(e) });
        } }
    });
    cx.check("nullspace", |cb| {
        for m in &all {
            let a = Mat2::new(m.clone());
            let c = m[0].len();
            let v = match guard(|| a.nullspace()) {
                Err(e) => Err(e),
                Ok(basis) => {
                    let vs: M = basis.iter().map(|b| b[0].clone()).collect();
                    if vs.len() != c - brute_rank(m) { Err(format!("{} vectors, want cols - rank = {}", vs.len(), c - brute_rank(m))) }
                    else if vs.iter().any(|v| v.len() != c || m.iter().any(|row| (0..c).fold(0u8, |s, j| s ^ (row[j] & v[j])) != 0)) { Err(format!("a returned vector is not annihilated: {:?}", vs)) }
                    else if !vs.is_empty() && brute_rank(&vs) != vs.len() { Err(format!("returned vectors are linearly dependent: {:?}", vs)) } else { Ok(()) }
                }
            };
            cb(&|| format!("nullspace {:?}", m), v);
        }
    });
    cx.check("transpose_stack_mul_laws", |cb| {
        let small: Vec<&M> = all.iter().filter(|m| m.len() <= 2 && m[0].len() <= 3).collect();
        for m in all.iter().take(6000) {
            let a = Mat2::new(m.clone());
            let t = rows_of(&a.transpose());
            let want: M = (0..m[0].len()).map(|j| (0..m.len()).map(|i| m[i][j]).collect()).collect();
            cb(&|| format!("transpose {:?}", m), if t == want && rows_of(&a.transpose().transpose()) == *m { Ok(()) } else { Err(format!("got {:?}", t)) });
        }
        for a in &small { for b in &small {
            let (ma, mb) = (Mat2::new((*a).clone()), Mat2::new((*b).clone()));
            if a[0].len() == b.len() {
                let want = mul(a, b);
                let variants: Vec<(&str, Result<M, String>)> = vec![("&a * &b", guard(|| rows_of(&(&ma * &mb)))), ("a * &b", guard(|| rows_of(&(ma.clone() * &mb)))), ("&a * b", guard(|| rows_of(&(&ma * mb.clone())))), ("a * b", guard(|| rows_of(&(ma.clone() * mb.clone()))))];
                for (vn, p) in variants { cb(&|| format!("{}: {:?} * {:?}", vn, a, b), match p { Ok(p) if p == want => Ok(()), Ok(p) => Err(format!("got {:?}", p)), Err(e) => Err(e) }); }
            }
            if a[0].len() == b[0].len() { let s = guard(|| rows_of(&ma.vstack(&mb))); let mut w = (*a).clone(); w.extend((*b).clone()); cb(&|| format!("vstack {:?} {:?}", a, b), match s { Ok(s) if s == w => Ok(()), Ok(s) => Err(format!("got {:?}", s)), Err(e) => Err(e) }); }
            if a.len() == b.len() { let s = guard(|| rows_of(&ma.hstack(&mb))); let w: M = a.iter().zip(b.iter()).map(|(x, y)| { let mut r = x.clone(); r.extend(y.clone()); r }).collect(); cb(&|| format!("hstack {:?} {:?}", a, b), match s { Ok(s) if s == w => Ok(()), Ok(s) => Err(format!("got {:?}", s)), Err(e) => Err(e) }); }
        } }
    });
    cx.check("row_col_ops", |cb| {
        for m in all.iter().filter(|m| m.len() >= 2 && m[0].len() >= 2).take(3000) {
            let (r, c) = (m.len(), m[0].len());
            for a in 0..r { for b in 0..r { if a != b {
                let mut x = Mat2::new(m.clone()); x.row_add(a, b);
                let mut w = m.clone(); for j in 0..c { w[b][j] ^= m[a][j]; }
                cb(&|| format!("row_add({}, {}) {:?}", a, b, m), if rows_of(&x) == w { Ok(()) } else { Err(format!("got {:?}", rows_of(&x))) });
                let mut y = Mat2::new(m.clone()); y.row_swap(a, b); let mut w2 = m.clone(); w2.swap(a, b);
                cb(&|| format!("row_swap({}, {}) {:?}", a, b, m), if rows_of(&y) == w2 { Ok(()) } else { Err(format!("got {:?}", rows_of(&y))) });
            } } }
            use quizx::linalg::ColOps;
            for a in 0..c { for b in 0..c { if a != b {
                let mut x = Mat2::new(m.clone()); x.col_add(a, b);
                let mut w = m.clone(); for i in 0..r { w[i][b] ^= m[i][a]; }
                cb(&|| format!("col_add({}, {}) {:?}", a, b, m), if rows_of(&x) == w { Ok(()) } else { Err(format!("got {:?}", rows_of(&x))) });
                let mut y = Mat2::new(m.clone()); y.col_swap(a, b); let mut w2 = m.clone(); for i in 0..r { w2[i].swap(a, b); }
                cb(&|| format!("col_swap({}, {}) {:?}", a, b, m), if rows_of(&y) == w2 { Ok(()) } else { Err(format!("got {:?}", rows_of(&y))) });
            } } }
        }
    });
}
