//! C18: decomposition trees of small graphs under seeded move sequences.
use crate::{guard, Ctx};
use quizx::graph::{GraphLike, VType};
use quizx::rankwidth::decomp_tree::{DecompNode, DecompTree};
use quizx::vec_graph::Graph;
use rand::{rngs::SmallRng, Rng, SeedableRng};

fn make_graph(n: usize, seed: u64) -> Graph {
    let mut rng = SmallRng::seed_from_u64(seed);
    let mut g = Graph::new();
    let vs: Vec<usize> = (0..n).map(|_| g.add_vertex(VType::Z)).collect();
    for i in 0..n { for j in i + 1..n { if rng.random_bool(0.4) { g.add_edge(vs[i], vs[j]); } } }
    g
}
/// cubic tree whose leaves are exactly the graph's vertices
fn valid(t: &DecompTree, g: &Graph) -> Result<(), String> {
    let n = t.nodes.len();
    for (i, node) in t.nodes.iter().enumerate() {
        let nh = node.nhd();
        if node.is_leaf() && nh.len() != 1 || node.is_interior() && nh.len() != 3 { return Err(format!("node {} has the wrong degree", i)); }
        for (a, &j) in nh.iter().enumerate() {
            if j >= n || j == i { return Err(format!("node {} has neighbour {} (out of range or itself)", i, j)); }
            if nh[..a].contains(&j) { return Err(format!("node {} lists neighbour {} twice", i, j)); }
            if !t.nodes[j].nhd().contains(&i) { return Err(format!("adjacency not symmetric: {} -> {} but not back", i, j)); }
        }
    }
    // connected + n-1 edges = tree
    let edges: usize = t.nodes.iter().map(|x| x.nhd().len()).sum::<usize>() / 2;
    let mut seen = vec![false; n]; let mut stack = vec![0]; seen[0] = true; let mut cnt = 1;
    while let Some(x) = stack.pop() { for &y in t.nodes[x].nhd() { if !seen[y] { seen[y] = true; cnt += 1; stack.push(y); } } }
    if cnt != n || edges != n - 1 { return Err(format!("not a tree: {} of {} nodes reachable, {} edges", cnt, n, edges)); }
    let mut labels: Vec<usize> = t.nodes.iter().filter_map(|x| if let DecompNode::Leaf(_, v) = x { Some(*v) } else { None }).collect();
    labels.sort();
    let mut vs: Vec<usize> = g.vertices().collect(); vs.sort();
    if labels != vs { return Err(format!("leaf labels {:?} are not the graph's vertices {:?}", labels, vs)); }
    if !t.is_valid_for_graph(g) { return Err("is_valid_for_graph() is false".into()); }
    Ok(())
}

pub fn run(cx: &mut Ctx) {
    cx.check("moves_keep_tree_valid_and_cache_fresh", |cb| {
        for n in 2..=9usize { for seed in 0..12 * crate::scale() {
            let g = make_graph(n, seed * 31 + n as u64);
            let mut rng = SmallRng::seed_from_u64(seed);
            let mut t = DecompTree::random_decomp(&g, &mut rng);
            cb(&|| format!("random_decomp n={} seed={}", n, seed), valid(&t, &g));
            let mut hist = vec![];
            for step in 0..25 {
                let mv = rng.random_range(0..3);
                hist.push(mv);
                let _ = t.rankwidth(&g);   // fill the cache before the move
                let r = guard(|| match mv { 0 => t.swap_random_leaves(&mut rng), 1 => t.move_random_subtree(&mut rng), _ => t.random_local_swap(&mut rng) });
                let v = r.and_then(|_| valid(&t, &g)).and_then(|_| {
                    let (w, s) = (t.rankwidth(&g), t.rankwidth_score(&g));
                    let mut fresh = t.clone(); fresh.clear_ranks();
                    let (w2, s2) = (fresh.rankwidth(&g), fresh.rankwidth_score(&g));
                    if (w, s) == (w2, s2) { Ok(()) } else { Err(format!("cached rank-width/score ({}, {}) differ from recomputed ({}, {})", w, s, w2, s2)) }
                });
                let bad = v.is_err();
                cb(&|| format!("n={} seed={} moves={:?} (0=leaf swap, 1=subtree move, 2=local swap), step {}", n, seed, hist, step), v);
                if bad { break; }
            }
        } }
    });
    cx.check("annealer_never_widens", |cb| {
        use quizx::rankwidth::annealer::RankwidthAnnealer;
        for n in 6..=11usize { for seed in 0..150 * crate::scale() {
            let g = make_graph(n, seed * 7 + n as u64);
            let v = guard(|| {
                let mut r0 = SmallRng::seed_from_u64(seed ^ 0xABCD);
                let mut start = DecompTree::random_decomp(&g, &mut r0);
                let w0 = start.rankwidth(&g);
                let mut ann = RankwidthAnnealer::new_with_decomp(g.clone(), start.clone(), SmallRng::seed_from_u64(seed));
                // "all annealer parameter settings": iterations, initial / minimal temperature, cooling rate and adaptive cooling vary with the seed
                let k = seed % 6;
                ann.set_iterations([300, 40, 1, 150, 300, 80][k as usize]);
                if k >= 1 { ann.set_init_temp([5.0, 0.5, 50.0, 1.0, 5.0, 0.05][k as usize]); ann.set_min_temp([0.01, 0.001, 0.4, 0.9, 0.01, 0.01][k as usize]);
                            ann.set_cooling_rate([0.99, 0.5, 0.999, 0.9, 0.95, 0.7][k as usize]); ann.set_adaptive_cooling(k % 2 == 0); }
                let mut res = ann.run();
                valid(&res, &g)?;
                let w1 = { res.clear_ranks(); res.rankwidth(&g) };
                if w1 > w0 { return Err(format!("the annealer (parameter setting {}) returned width {} from a start of width {}", k, w1, w0)); }
                Ok(())
            }).and_then(|r| r);
            cb(&|| format!("n={} graph/rng seed {}", n, seed), v);
        } }
    });
    // adversarial starts: among 200 random decompositions the NARROWEST one, and among those the one with the WORST
    // score — a start the annealer is tempted to leave for a lower-scoring but wider tree
    cx.check("annealer_keeps_a_narrow_start", |cb| {
        use quizx::rankwidth::annealer::RankwidthAnnealer;
        for n in 8..=11usize { for gs in 0..20 * crate::scale() {
            let g = make_graph(n, gs * 13 + n as u64);
            let mut r0 = SmallRng::seed_from_u64(gs);
            let mut best: Option<(usize, usize, DecompTree)> = None;
            for _ in 0..200 {
                let mut t = DecompTree::random_decomp(&g, &mut r0);
                let (w, sc) = (t.rankwidth(&g), t.rankwidth_score(&g));
                if best.as_ref().map_or(true, |(bw, bs, _)| w < *bw || (w == *bw && sc > *bs)) { best = Some((w, sc, t)); }
            }
            let (w0, s0, start) = best.unwrap();
            for seed in 0..12u64 {
                let v = guard(|| {
                    let mut ann = RankwidthAnnealer::new_with_decomp(g.clone(), start.clone(), SmallRng::seed_from_u64(seed));
                    let mut res = ann.run();
                    valid(&res, &g)?;
                    res.clear_ranks();
                    let w1 = res.rankwidth(&g);
                    if w1 > w0 { return Err(format!("start width {} (score {}), returned width {}", w0, s0, w1)); }
                    Ok(())
                }).and_then(|r| r);
                cb(&|| format!("n={} graph seed {} annealer seed {}", n, gs, seed), v);
            }
        } }
    });
}
