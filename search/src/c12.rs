//! C12: the equality checkers on pairs of small circuits against ground truth from the state-vector simulator of c15.rs (written from the
//! textbook gate matrices): a definite answer of the rewriting-based check is never wrong, the tensor-based check is exact.
use crate::c04::Rng;
use crate::c15::{close, unitary, C};
use crate::{guard, Ctx};
use num::Zero;
use quizx::circuit::Circuit;
use quizx::equality::*;

fn random_circuit(r: &mut Rng, n: usize, len: u64) -> Circuit {
    let mut c = Circuit::new(n);
    let one = ["h", "t", "s", "z", "x", "tdg", "sdg"];
    for _ in 0..len {
        if n >= 2 && r.below(3) == 0 {
            let a = r.below(n as u64) as usize; let mut b = r.below(n as u64 - 1) as usize; if b >= a { b += 1; }
            c.add_gate(["cx", "cz", "swap"][r.below(3) as usize], vec![a, b]);
        } else { c.add_gate(one[r.below(one.len() as u64) as usize], vec![r.below(n as u64) as usize]); }
    }
    c
}
/// a circuit with the same unitary, written differently; `phase`: multiply by a global phase that is not 1
fn variant(r: &mut Rng, c: &Circuit, phase: bool) -> Circuit {
    let n = c.num_qubits();
    let mut d = Circuit::new(n);
    for g in &c.gates {
        match (g.t, r.below(3)) {
            (quizx::gate::GType::S, 0) => { d.add_gate("t", g.qs.clone()); d.add_gate("t", g.qs.clone()); }
            (quizx::gate::GType::Z, 0) => { d.add_gate("s", g.qs.clone()); d.add_gate("s", g.qs.clone()); }
            (quizx::gate::GType::CZ, 0) => { d.add_gate("h", vec![g.qs[1]]); d.add_gate("cx", g.qs.clone()); d.add_gate("h", vec![g.qs[1]]); }
            (quizx::gate::GType::HAD, 0) => { d.add_gate("h", g.qs.clone()); d.add_gate("h", g.qs.clone()); d.add_gate("h", g.qs.clone()); }
            _ => d.push(g.clone()),
        }
        if r.below(4) == 0 { let q = r.below(n as u64) as usize; d.add_gate("h", vec![q]); d.add_gate("h", vec![q]); }
    }
    if phase { let q = r.below(n as u64) as usize; for name in ["x", "z", "x", "z"] { d.add_gate(name, vec![q]); } if r.below(2) == 0 { for name in ["s", "x", "s", "x"] { d.add_gate(name, vec![q]); } } }
    d
}
fn up_to_phase(a: &Vec<Vec<C>>, b: &Vec<Vec<C>>) -> bool {
    let mut lam: Option<C> = None;
    for (x, y) in a.iter().zip(b) { for (p, q) in x.iter().zip(y) {
        if p.norm() > 1e-9 || q.norm() > 1e-9 {
            if p.norm() < 1e-9 || q.norm() < 1e-9 { return false; }
            let l = q / p;
            match lam { None => lam = Some(l), Some(m) => if (l - m).norm() > 1e-7 { return false; } }
        }
    } }
    true
}

pub fn run(cx: &mut Ctx) {
    let seed: u64 = std::env::var("VERIF_SEED").ok().and_then(|s| s.parse().ok()).unwrap_or(0);
    let mut r = Rng(0xc12_5eed ^ seed.wrapping_mul(0x9e3779b97f4a7c15));
    let n_pairs = 160 * crate::scale();
    let mut pairs: Vec<(String, Circuit, Circuit)> = vec![];
    for k in 0..n_pairs {
        let n = if k % 7 >= 5 { 2 + r.below(3) as usize } else { 1 + r.below(3) as usize };
        let len = 2 + r.below(8); let c = random_circuit(&mut r, n, len);
        let d = match k % 7 {
            0 => variant(&mut r, &c, false),                                      // equal
            1 => variant(&mut r, &c, true),                                       // equal up to a global phase only
            2 => { let mut d = variant(&mut r, &c, false); d.add_gate(["t", "s", "h", "x"][r.below(4) as usize], vec![r.below(n as u64) as usize]); d }   // one more gate
            3 => { let len = 2 + r.below(8); random_circuit(&mut r, n, len) }                      // unrelated, same arity
            4 => random_circuit(&mut r, 1 + (n % 3), 3),                          // (mostly) different arity
            6 => {                                                                // differs by a wire permutation only (as swap gates or as three CNOTs)
                let mut d = if r.below(3) == 0 { c.clone() } else { variant(&mut r, &c, false) };
                let a = r.below(n as u64) as usize; let mut b = r.below(n as u64 - 1) as usize; if b >= a { b += 1; }
                if r.below(2) == 0 { d.add_gate("swap", vec![a, b]); } else { d.add_gate("cx", vec![a, b]); d.add_gate("cx", vec![b, a]); d.add_gate("cx", vec![a, b]); }
                if n >= 3 && r.below(2) == 0 { let c2 = (0..n).find(|q| *q != a && *q != b).unwrap(); d.add_gate("swap", vec![b, c2]); }
                d }
            _ => { let m = 12 + r.below(14); let x = random_circuit(&mut r, n, m); let mut d = variant(&mut r, &c, false); d += &x; d += &x.to_adjoint(); d }   // equal, but hard to cancel: a long random section followed by its adjoint
        };
        pairs.push((format!("kind {} | {:?} | {:?}", k % 7, c.gates.iter().map(|g| format!("{:?}{:?}", g.t, g.qs)).collect::<Vec<_>>(), d.gates.iter().map(|g| format!("{:?}{:?}", g.t, g.qs)).collect::<Vec<_>>()), c, d));
    }
    // equal pairs that rewriting does NOT cancel: the 4-qubit "spider nest" (T on odd, T-dagger on even subsets as parity phases over all 15
    // non-empty subsets = the identity), alone and after a random circuit — here the honest answer of the rewriting check is "unknown"
    {
        use quizx::gate::{GType, Gate};
        use quizx::phase::Phase;
        let nest = |n: usize| { let mut c = Circuit::new(n); for m in 1u32..(1 << n) { let qs: Vec<usize> = (0..n).filter(|i| m >> i & 1 == 1).collect(); let sign = if qs.len() % 2 == 1 { 1 } else { -1 }; c.push(Gate::new_with_phase(GType::ParityPhase, qs, Phase::new(num::Rational64::new(sign, 4)))); } c };
        for k in 0..4 {
            let c = if k == 0 { Circuit::new(4) } else { random_circuit(&mut r, 4, 3 + k) };
            let mut d = c.clone(); d += &nest(4);
            pairs.push((format!("kind nest | {} gates | the same followed by the 4-qubit spider nest", c.gates.len()), c, d));
        }
    }
    // differences that survive simplification on BARE wires: the empty circuit against a permutation / a Hadamard on a wire / both
    for n in 2usize..=4 {
        let e = Circuit::new(n);
        let mut sw = Circuit::new(n); sw.add_gate("swap", vec![0, n - 1]);
        let mut cn = Circuit::new(n); cn.add_gate("cx", vec![0, 1]); cn.add_gate("cx", vec![1, 0]); cn.add_gate("cx", vec![0, 1]);
        let mut cyc = Circuit::new(n); for q in 0..n - 1 { cyc.add_gate("swap", vec![q, q + 1]); }
        let mut hd = Circuit::new(n); hd.add_gate("h", vec![n - 1]);
        let mut hs = Circuit::new(n); hs.add_gate("h", vec![0]); hs.add_gate("swap", vec![0, 1]); hs.add_gate("h", vec![1]);   // = swap
        let mut ss = Circuit::new(n); ss.add_gate("swap", vec![0, 1]); ss.add_gate("swap", vec![0, 1]);                     // = identity
        for (what, d) in [("swap", sw), ("three CNOTs", cn), ("cyclic shift", cyc), ("one Hadamard", hd), ("H swap H", hs), ("swap swap", ss)] {
            pairs.push((format!("kind bare | empty {}-qubit circuit | {}", n, what), e.clone(), d.clone()));
            pairs.push((format!("kind bare | {} | empty {}-qubit circuit", what, n), d, e.clone()));
        }
    }
    cx.check("definite_answers_are_right", |cb| {
        for (name, c, d) in &pairs {
            let res = (|| {
                let same_arity = c.num_qubits() == d.num_qubits();
                let (exact, phase) = if same_arity { let (u, v) = (unitary(c, c.num_qubits())?, unitary(d, d.num_qubits())?); (close(&u, &v), up_to_phase(&u, &v)) } else { (false, false) };
                match guard(|| equal_circuit_with_options(c, d, true))? {
                    Some(true) => if !phase { return Err("equal up to a global phase was answered, but the unitaries are not proportional".to_string()); },
                    Some(false) => if same_arity { return Err("not equal (up to phase) was answered for circuits of the same arity: the check cannot know that".to_string()); },
                    None => {}
                }
                match guard(|| equal_circuit_with_options(c, d, false))? {
                    Some(true) => if !exact { return Err("exactly equal was answered, but the unitaries differ".to_string()); },
                    Some(false) => if exact { return Err("not equal was answered, but the unitaries are equal".to_string()); },
                    None => {}
                }
                if guard(|| equal_circuit(c, d))? != guard(|| equal_circuit_with_options(c, d, true))? { return Err("equal_circuit differs from the up-to-phase check".to_string()); }
                if guard(|| equal_circuit_dim(c, d))? != same_arity { return Err("equal_circuit_dim is wrong".to_string()); }
                Ok(())
            })();
            cb(&|| name.clone(), res);
        }
    });
    cx.check("tensor_check_is_exact", |cb| {
        for (name, c, d) in &pairs {
            let res = (|| {
                let same_arity = c.num_qubits() == d.num_qubits();
                let exact = same_arity && close(&unitary(c, c.num_qubits())?, &unitary(d, d.num_qubits())?);
                let got = guard(|| equal_circuit_tensor(c, d))?;
                if got == exact { Ok(()) } else { Err(format!("equal_circuit_tensor = {}, the unitaries are {}", got, if exact { "equal" } else { "different" })) }
            })();
            cb(&|| name.clone(), res);
        }
    });
    cx.check("equal_pairs_are_recognised_sometimes", |cb| {
        // not a property (the check may answer None) — a vacuity guard for the two checks above: some definite answers must occur
        let mut yes = 0; let mut no = 0;
        for (_, c, d) in &pairs { match guard(|| equal_circuit_with_options(c, d, false)) { Ok(Some(true)) => yes += 1, Ok(Some(false)) => no += 1, _ => {} } }
        let _ = C::zero();
        cb(&|| format!("{} pairs", pairs.len()), if yes > 0 && no > 0 { Ok(()) } else { Err(format!("only {} 'equal' and {} 'not equal' answers in the whole sweep: the sweep decides nothing", yes, no)) });
    });
}
