//! C11: identity test, basis plugging, adjoint, composition and tensor product on small diagrams.
//! is_identity and the panic-freedom of plugging are checked against oracles written here; the "denotes" clauses are
//! checked RELATIVE to the library's own tensor evaluator (contractions are done here on the evaluated tensors).
use crate::{guard, Ctx};
use num::complex::Complex64 as C;
use num::{Rational64, Zero};
use quizx::circuit::Circuit;
use quizx::graph::{BasisElem, EType, GraphLike, VType};
use quizx::tensor::ToTensor;
use quizx::vec_graph::Graph;

fn idx_list(n: usize) -> Vec<Vec<usize>> { (0..1usize << n).map(|m| (0..n).map(|i| m >> i & 1).collect()).collect() }
fn tensor(g: &Graph) -> Result<(usize, usize, Vec<(Vec<usize>, C)>), String> {
    let t = guard(|| g.to_tensorf())?;
    let (ni, no) = (g.inputs().len(), g.outputs().len());
    if t.shape().len() != ni + no { return Err(format!("tensor has {} axes for {} inputs and {} outputs", t.shape().len(), ni, no)); }
    Ok((ni, no, idx_list(ni + no).into_iter().map(|ix| { let v = t[&ix[..]]; (ix, v) }).collect()))
}
fn lookup(t: &Vec<(Vec<usize>, C)>, ix: &[usize]) -> C { t.iter().find(|(i, _)| i == ix).map(|x| x.1).unwrap_or(C::zero()) }
fn close(a: C, b: C) -> bool { (a - b).norm() < 1e-9 }
fn basis_vec(b: BasisElem) -> [C; 2] {
    let s = std::f64::consts::FRAC_1_SQRT_2;
    match b { BasisElem::Z0 => [C::new(1.0, 0.0), C::zero()], BasisElem::Z1 => [C::zero(), C::new(1.0, 0.0)], BasisElem::X0 => [C::new(s, 0.0), C::new(s, 0.0)], BasisElem::X1 => [C::new(s, 0.0), C::new(-s, 0.0)], BasisElem::SKIP => [C::zero(), C::zero()] }
}
fn circuits() -> Vec<(String, Graph)> {
    let mut out = vec![];
    let specs: Vec<(usize, Vec<(&str, Vec<usize>)>)> = vec![
        (1, vec![]), (1, vec![("h", vec![0])]), (1, vec![("t", vec![0]), ("h", vec![0])]), (2, vec![]), (2, vec![("cx", vec![0, 1])]), (2, vec![("h", vec![0]), ("cx", vec![0, 1]), ("t", vec![1])]),
        (2, vec![("cz", vec![0, 1]), ("h", vec![1]), ("s", vec![0])]), (2, vec![("swap", vec![0, 1]), ("t", vec![0])]), (3, vec![("cx", vec![0, 2]), ("h", vec![1]), ("cz", vec![1, 2])]), (2, vec![("h", vec![0]), ("h", vec![1])]),
    ];
    for (n, gs) in specs { let mut c = Circuit::new(n); for (name, qs) in &gs { c.add_gate(name, qs.clone()); } out.push((format!("{} qubits {:?}", n, gs), c.to_graph())); }
    // a diagram whose boundaries carry Hadamard edges / connect straight to each other
    let mut g = Graph::new(); let (i, o) = (g.add_vertex(VType::B), g.add_vertex(VType::B)); g.add_edge_with_type(i, o, EType::H); g.set_inputs(vec![i]); g.set_outputs(vec![o]);
    out.push(("hadamard wire".into(), g));
    // diagrams with a non-real global scalar (so that a missing conjugation shows)
    let extra: Vec<(String, Graph)> = out.iter().take(7).skip(1).map(|(n, g)| { let mut h = g.clone(); *h.scalar_mut() *= quizx::scalar::Scalar4::new([1, 2, 0, 0], -1); (format!("{} with scalar (1+2w)/2", n), h) }).collect();
    out.extend(extra);
    out
}

pub fn run(cx: &mut Ctx) {
    cx.check("is_identity_exact", |cb| {
        // all diagrams with n <= 2 wires built from: a wire pattern (permutation, edge types), optional extra pieces
        for n in 0..=2usize { for perm in [0usize, 1] { for types in 0..1usize << n { for extra in 0..5 {
            if n < 2 && perm == 1 { continue; }
            let v = guard(|| {
                let mut g = Graph::new();
                let ins: Vec<usize> = (0..n).map(|_| g.add_vertex(VType::B)).collect();
                let outs: Vec<usize> = (0..n).map(|_| g.add_vertex(VType::B)).collect();
                let mut ident = perm == 0 && types == 0;
                for i in 0..n {
                    let o = if perm == 1 { outs[n - 1 - i] } else { outs[i] };
                    let et = if types >> i & 1 == 1 { EType::H } else { EType::N };
                    if extra == 1 && i == 0 { let z = g.add_vertex(VType::Z); g.add_edge_with_type(ins[i], z, et); g.add_edge_with_type(z, o, EType::N); ident = false; }   // a spider on the wire
                    else { g.add_edge_with_type(ins[i], o, et); }
                }
                if extra == 2 { g.add_vertex(VType::Z); ident = false; }                               // an isolated spider
                if extra == 3 { let (a, b) = (g.add_vertex(VType::Z), g.add_vertex(VType::X)); g.add_edge_with_type(a, b, EType::N); ident = false; }   // a scalar pair
                g.set_inputs(ins.clone()); g.set_outputs(outs.clone());
                if extra == 4 && n == 2 { g.set_outputs(vec![outs[1], outs[0]]); ident = perm == 1 && types == 0; }   // outputs listed in the other order
                let got = g.is_identity();
                if got == ident { Ok(()) } else { Err(format!("is_identity() = {}, the diagram is {}plain wires from input i to output i and nothing else", got, if ident { "" } else { "NOT " })) }
            }).and_then(|r| r);
            cb(&|| format!("wires {} reversed {} hadamard-mask {:#b} extra-piece {}", n, perm, types, extra), v);
        } } } }
    });
    let gs = circuits();
    cx.check("plug_basis_elements", |cb| {
        let elems = [BasisElem::Z0, BasisElem::Z1, BasisElem::X0, BasisElem::X1, BasisElem::SKIP];
        for (name, g) in &gs { let n = g.inputs().len(); for outputs in [false, true] { for len in 0..=n {
            let mut lists: Vec<Vec<BasisElem>> = vec![vec![]];
            for _ in 0..len { lists = lists.into_iter().flat_map(|l| elems.iter().map(move |e| { let mut x = l.clone(); x.push(*e); x })).collect(); }
            for bs in lists {
                let v = (|| {
                    let (ni, no, t0) = tensor(g)?;
                    let mut h = g.clone();
                    guard(|| if outputs { h.plug_outputs(&bs) } else { h.plug_inputs(&bs) })?;
                    let plugged: Vec<usize> = (0..bs.len()).filter(|&i| bs[i] != BasisElem::SKIP).collect();
                    let (hi, ho, t1) = tensor(&h)?;
                    if (hi, ho) != if outputs { (ni, no - plugged.len()) } else { (ni - plugged.len(), no) } { return Err(format!("{} inputs / {} outputs left", hi, ho)); }
                    // contract the original tensor with the basis vectors on the plugged axes
                    let off = if outputs { ni } else { 0 };
                    for (ix1, v1) in &t1 {
                        let mut want = C::zero();
                        for assign in idx_list(plugged.len()) {
                            let mut full = vec![0usize; ni + no]; let mut k = 0; let mut w = C::new(1.0, 0.0);
                            let side = if outputs { no } else { ni };
                            let mut open_pos = 0;
                            for a in 0..ni + no {
                                if a >= off && a < off + side && plugged.contains(&(a - off)) { let p = plugged.iter().position(|&x| x == a - off).unwrap(); full[a] = assign[p]; w *= basis_vec(bs[a - off])[assign[p]]; k += 1; }
                                else { full[a] = ix1[open_pos]; open_pos += 1; }
                            }
                            let _ = k;
                            want += w * lookup(&t0, &full);
                        }
                        if !close(*v1, want) { return Err(format!("entry {:?} is {}, applying the normalised basis elements gives {}", ix1, v1, want)); }
                    }
                    Ok(())
                })();
                cb(&|| format!("{} plug_{}({:?})", name, if outputs { "outputs" } else { "inputs" }, bs), v);
            }
        } } }
    });
    cx.check("adjoint_is_conjugate_transpose", |cb| {
        for (name, g) in &gs {
            let v = (|| {
                let (ni, no, t0) = tensor(g)?;
                let a = guard(|| g.to_adjoint())?;
                let (ai, ao, ta) = tensor(&a)?;
                if (ai, ao) != (no, ni) { return Err("the adjoint does not swap inputs and outputs".into()); }
                for (ix, v) in &ta { let mut sw = ix[ai..].to_vec(); sw.extend_from_slice(&ix[..ai]); if !close(*v, lookup(&t0, &sw).conj()) { return Err(format!("entry {:?}: {} is not the conjugate of the transposed entry {}", ix, v, lookup(&t0, &sw))); } }
                let aa = guard(|| a.to_adjoint())?;
                let (_, _, t2) = tensor(&aa)?;
                if t2.iter().zip(t0.iter()).any(|(x, y)| !close(x.1, y.1)) { return Err("the adjoint is not an involution".into()); }
                Ok(())
            })();
            cb(&|| name.clone(), v);
        }
    });

    // add_edge_smart on every (colour of s, colour of t, existing wire none/plain/Hadamard, new wire plain/Hadamard) and on self-loops,
    // with phases and extra legs, against the same diagram with the new wire routed through a phase-free identity spider (no parallel
    // wire, no self-loop: the evaluator's meaning of "one more wire")
    cx.check("add_edge_smart_every_case", |cb| {
        let tys = [VType::Z, VType::X];
        let ets = [EType::N, EType::H];
        for &ts in &tys { for &tt in &tys { for existing in 0..3usize { for &new in &ets { for selfloop in [false, true] { for ph in 0..2 {
            if selfloop && (existing != 0 || tt != ts) { continue; }
            let v = (|| {
                let mut g = Graph::new();
                let s = g.add_vertex_with_phase(ts, Rational64::new(if ph == 0 { 1 } else { 0 }, 4));
                let t = if selfloop { s } else { g.add_vertex_with_phase(tt, Rational64::new(1, 2)) };
                // two open legs so that the map is not a mere number
                let (b0, b1) = (g.add_vertex(VType::B), g.add_vertex(VType::B));
                g.add_edge_with_type(b0, s, EType::N); g.add_edge_with_type(b1, t, if ph == 0 { EType::N } else { EType::H });
                g.set_inputs(vec![b0]); g.set_outputs(vec![b1]);
                if existing > 0 { g.add_edge_with_type(s, t, ets[existing - 1]); }
                let mut want = g.clone();
                let mid = want.add_vertex(if ts == VType::Z { VType::X } else { VType::Z });   // a 2-legged phase-free spider of either colour is a plain wire
                want.add_edge_with_type(s, mid, new); want.add_edge_with_type(mid, t, EType::N);
                let mut got = g.clone();
                guard(|| got.add_edge_smart(s, t, new))?;
                let (_, _, tw) = tensor(&want)?; let (_, _, tg) = tensor(&got)?;
                for ((ix, a), (_, b)) in tw.iter().zip(tg.iter()) { if !close(*a, *b) { return Err(format!("entry {:?}: add_edge_smart gives {}, one more wire means {}", ix, b, a)); } }
                Ok(())
            })();
            cb(&|| format!("s {:?} t {:?} existing {} new {:?} self-loop {} variant {}", ts, if selfloop { ts } else { tt }, ["none", "plain", "hadamard"][existing], new, selfloop, ph), v);
        } } } } } }
    });
    cx.check("plug_composes_append_tensors", |cb| {
        for (n1, g) in &gs { for (n2, h) in &gs {
            let v = (|| {
                let (gi, go, tg) = tensor(g)?; let (hi, ho, th) = tensor(h)?;
                if go == hi {
                    let mut p = g.clone(); guard(|| p.plug(h))?;
                    let (pi, po, tp) = tensor(&p)?;
                    if (pi, po) != (gi, ho) { return Err("plug: wrong arity".into()); }
                    for (ix, v) in &tp { let mut want = C::zero(); for mid in idx_list(go) { let mut a = ix[..gi].to_vec(); a.extend(&mid); let mut b = mid.clone(); b.extend(&ix[gi..]); want += lookup(&tg, &a) * lookup(&th, &b); } if !close(*v, want) { return Err(format!("plug: entry {:?} is {}, the composition gives {}", ix, v, want)); } }
                }
                if gi + hi + go + ho <= 6 {
                    let mut p = g.clone(); let vmap = guard(|| p.append_graph(h))?;
                    // append_graph copies vertices and edges; the caller lists the copied boundaries
                    let mut ins = p.inputs().clone(); ins.extend(h.inputs().iter().map(|v| vmap[v])); p.set_inputs(ins);
                    let mut outs = p.outputs().clone(); outs.extend(h.outputs().iter().map(|v| vmap[v])); p.set_outputs(outs);
                    let (pi, po, tp) = tensor(&p)?;
                    if (pi, po) != (gi + hi, go + ho) { return Err("append: wrong arity".into()); }
                    for (ix, v) in &tp { let mut a = ix[..gi].to_vec(); a.extend(&ix[gi + hi..gi + hi + go]); let mut b = ix[gi..gi + hi].to_vec(); b.extend(&ix[gi + hi + go..]); let want = lookup(&tg, &a) * lookup(&th, &b); if !close(*v, want) { return Err(format!("append: entry {:?} is {}, the tensor product gives {}", ix, v, want)); } }
                }
                Ok(())
            })();
            cb(&|| format!("g = {}; h = {}", n1, n2), v);
        } }
    });
    let _ = Rational64::new(1, 1);
}
