//! C15: circuits on <= 4 qubits against a state-vector simulator written from the textbook gate matrices.
use crate::{guard, Ctx};
pub use num::complex::Complex64 as C;
use num::{Rational64, Zero};
use quizx::circuit::{Circuit, CircuitStats};
use quizx::gate::{GType, GType::*, Gate};
use quizx::phase::Phase;
use std::f64::consts::PI;

fn phase_of(g: &Gate) -> f64 { let r = g.phase.to_rational(); *r.numer() as f64 / *r.denom() as f64 }
fn h(st: &mut Vec<C>, q: usize) {
    let s = std::f64::consts::FRAC_1_SQRT_2;
    for i in 0..st.len() { if i >> q & 1 == 0 { let (a, b) = (st[i], st[i | 1 << q]); st[i] = (a + b) * s; st[i | 1 << q] = (a - b) * s; } }
}
fn zph(st: &mut Vec<C>, q: usize, a: f64) { let w = C::from_polar(1.0, PI * a); for i in 0..st.len() { if i >> q & 1 == 1 { st[i] *= w; } } }
fn perm(st: &mut Vec<C>, f: impl Fn(usize) -> usize) { let old = st.clone(); for i in 0..old.len() { st[f(i)] = old[i]; } }
/// reference semantics of every unitary gate kind (compound kinds by their definition, not by their expansion)
pub fn apply_gate(st: &mut Vec<C>, g: &Gate) -> Result<(), String> { apply(st, g) }
fn apply(st: &mut Vec<C>, g: &Gate) -> Result<(), String> {
    let q = &g.qs;
    match g.t {
        ZPhase => zph(st, q[0], phase_of(g)), Z => zph(st, q[0], 1.0), S => zph(st, q[0], 0.5), T => zph(st, q[0], 0.25),
        Sdg => zph(st, q[0], -0.5), Tdg => zph(st, q[0], -0.25),
        XPhase => { h(st, q[0]); zph(st, q[0], phase_of(g)); h(st, q[0]); }
        NOT => perm(st, |i| i ^ 1 << q[0]),
        HAD => h(st, q[0]),
        CNOT => perm(st, |i| if i >> q[0] & 1 == 1 { i ^ 1 << q[1] } else { i }),
        CZ => for i in 0..st.len() { if i >> q[0] & 1 == 1 && i >> q[1] & 1 == 1 { st[i] = -st[i]; } },
        XCX => { h(st, q[0]); h(st, q[1]); for i in 0..st.len() { if i >> q[0] & 1 == 1 && i >> q[1] & 1 == 1 { st[i] = -st[i]; } } h(st, q[0]); h(st, q[1]); }
        SWAP => perm(st, |i| { let (a, b) = (i >> q[0] & 1, i >> q[1] & 1); if a != b { i ^ 1 << q[0] ^ 1 << q[1] } else { i } }),
        CCZ => for i in 0..st.len() { if q.iter().all(|&x| i >> x & 1 == 1) { st[i] = -st[i]; } },
        TOFF => perm(st, |i| if i >> q[0] & 1 == 1 && i >> q[1] & 1 == 1 { i ^ 1 << q[2] } else { i }),
        ParityPhase => { let w = C::from_polar(1.0, PI * phase_of(g)); for i in 0..st.len() { if q.iter().fold(0, |p, &x| p ^ (i >> x & 1)) == 1 { st[i] *= w; } } }
        _ => return Err(format!("gate kind {:?} has no unitary semantics here", g.t)),
    }
    Ok(())
}
pub fn unitary(c: &Circuit, n: usize) -> Result<Vec<Vec<C>>, String> {
    let mut cols = vec![];
    for b in 0..1usize << n { let mut st = vec![C::zero(); 1 << n]; st[b] = C::new(1.0, 0.0); for g in &c.gates { apply(&mut st, g)?; } cols.push(st); }
    Ok(cols)
}
pub fn close(a: &Vec<Vec<C>>, b: &Vec<Vec<C>>) -> bool { a.iter().zip(b).all(|(x, y)| x.iter().zip(y).all(|(p, q)| (p - q).norm() < 1e-9)) }
fn is_ident(a: &Vec<Vec<C>>) -> bool { a.iter().enumerate().all(|(i, col)| col.iter().enumerate().all(|(j, x)| (x - if i == j { C::new(1.0, 0.0) } else { C::zero() }).norm() < 1e-9)) }
fn ph(n: i64, d: i64) -> Phase { Phase::new(Rational64::new(n, d)) }
fn basic_kind(t: GType) -> bool { !matches!(t, TOFF | CCZ | ParityPhase | UnknownGate) }

/// all ordered selections of k distinct wires out of n
fn sel(n: usize, k: usize) -> Vec<Vec<usize>> {
    if k == 0 { return vec![vec![]]; }
    let mut out = vec![];
    for rest in sel(n, k - 1) { for x in 0..n { if !rest.contains(&x) { let mut r = rest.clone(); r.push(x); out.push(r); } } }
    out
}
fn sample_gates(n: usize) -> Vec<Gate> {
    let mut gs = vec![];
    let phases = [ph(0, 1), ph(1, 4), ph(1, 2), ph(3, 4), ph(1, 1), ph(-1, 4), ph(1, 3), ph(-2, 5)];
    for q in sel(n, 1) { for t in [NOT, Z, S, T, Sdg, Tdg, HAD] { gs.push(Gate::new(t, q.clone())); } for p in phases { gs.push(Gate::new_with_phase(ZPhase, q.clone(), p)); gs.push(Gate::new_with_phase(XPhase, q.clone(), p)); } }
    for q in sel(n, 2) { for t in [CNOT, CZ, XCX, SWAP] { gs.push(Gate::new(t, q.clone())); } }
    for q in sel(n, 3) { gs.push(Gate::new(CCZ, q.clone())); gs.push(Gate::new(TOFF, q.clone())); }
    for k in 1..=n { for q in sel(n, k) { for p in [ph(1, 4), ph(1, 1), ph(-1, 3), ph(0, 1)] { gs.push(Gate::new_with_phase(ParityPhase, q.clone(), p)); } } }
    gs
}
fn circ(n: usize, gs: &[Gate]) -> Circuit { let mut c = Circuit::new(n); for g in gs { c.push(g.clone()); } c }

pub fn run(cx: &mut Ctx) {
    let n = 4;
    let gates = sample_gates(n);
    cx.check("basic_gate_expansion", |cb| {
        for g in &gates {
            let c = circ(n, &[g.clone()]);
            let v = (|| {
                let e = guard(|| c.to_basic_gates())?;
                if e.num_gates() != g.num_basic_gates() { return Err(format!("{} gates pushed, num_basic_gates() = {}", e.num_gates(), g.num_basic_gates())); }
                if e.num_qubits() != n { return Err("qubit count changed".into()); }
                for b in &e.gates { if !basic_kind(b.t) || b.qs.len() > 2 || b.qs.is_empty() || b.qs.iter().any(|x| !g.qs.contains(x)) { return Err(format!("non-basic gate {:?} in the expansion", b)); } }
                if !close(&unitary(&e, n)?, &unitary(&c, n)?) { return Err(format!("the expansion {:?} is a different unitary", e.gates.iter().map(|b| (b.t, b.qs.clone())).collect::<Vec<_>>())); }
                let mut d = Circuit::new(n); guard(|| g.push_basic_gates(&mut d))?;
                if d != e { return Err("push_basic_gates and to_basic_gates disagree".into()); }
                Ok(())
            })();
            cb(&|| format!("{:?} on {:?} phase {}", g.t, g.qs, g.phase), v);
        }
    });
    // deterministic pseudo-random circuits
    let mut seed = 0x9E3779B97F4A7C15u64;
    let mut next = move |m: usize| { seed ^= seed << 13; seed ^= seed >> 7; seed ^= seed << 17; (seed >> 11) as usize % m };
    let mut circuits: Vec<Vec<Gate>> = gates.iter().map(|g| vec![g.clone()]).collect();
    for len in [2usize, 3, 5, 8] { for _ in 0..120 * crate::scale() as usize { circuits.push((0..len).map(|_| gates[next(gates.len())].clone()).collect()); } }
    cx.check("adjoint_inverts", |cb| {
        for gs in &circuits {
            let c = circ(n, gs);
            let v = (|| {
                let a = guard(|| c.to_adjoint())?;
                if a.num_gates() != c.num_gates() { return Err("adjoint changed the number of gates".into()); }
                let both = guard(|| &c + &a)?;
                if !is_ident(&unitary(&both, n)?) { return Err(format!("c followed by c.to_adjoint() is not the identity; adjoint = {:?}", a.gates.iter().map(|b| (b.t, b.qs.clone(), b.phase)).collect::<Vec<_>>())); }
                if guard(|| a.to_adjoint())? != c { return Err("adjoint twice is not the original circuit".into()); }
                let mut r = c.clone(); r.reverse(); r.reverse();
                if r != c { return Err("reversing twice is not the original circuit".into()); }
                let mut g2 = gs[0].clone(); g2.adjoint(); g2.adjoint();
                if g2 != gs[0] { return Err("Gate::adjoint twice is not the original gate".into()); }
                Ok(())
            })();
            cb(&|| format!("{:?}", gs.iter().map(|g| (g.t, g.qs.clone(), g.phase)).collect::<Vec<_>>()), v);
        }
    });
    cx.check("concatenation_in_order", |cb| {
        for i in 0..400 {
            let (a, b) = (&circuits[next(circuits.len())], &circuits[next(circuits.len())]);
            let (ca, cb_) = (circ(n, a), circ(n, b));
            let mut want = a.clone(); want.extend(b.iter().cloned());
            let w = circ(n, &want);
            let v = (|| {
                let variants = [guard(|| &ca + &cb_)?, guard(|| ca.clone() + cb_.clone())?, guard(|| &ca + cb_.clone())?, guard(|| ca.clone() + &cb_)?, { let mut x = ca.clone(); guard(|| x += &cb_)?; x }];
                for (k, s) in variants.iter().enumerate() { if *s != w { return Err(format!("variant {} of `+` gives gates {:?}, want a's gates followed by b's", k, s.gates.iter().map(|g| (g.t, g.qs.clone())).collect::<Vec<_>>())); } }
                Ok(())
            })();
            cb(&|| format!("pair {}: a = {:?}, b = {:?}", i, a.iter().map(|g| (g.t, g.qs.clone())).collect::<Vec<_>>(), b.iter().map(|g| (g.t, g.qs.clone())).collect::<Vec<_>>()), v);
        }
    });
    cx.check("stats_partition", |cb| {
        for gs in &circuits {
            let c = circ(n, gs);
            let s = CircuitStats::make(&c);
            let one = gs.iter().filter(|g| g.qs.len() == 1).count(); let two = gs.iter().filter(|g| g.qs.len() == 2).count();
            let cliff = gs.iter().filter(|g| matches!(g.t, NOT | Z | S | Sdg | CNOT | CZ | SWAP | HAD) || (matches!(g.t, ZPhase | XPhase) && g.phase.to_rational().denom() <= &2)).count();
            let ok = s.qubits == n && s.total == gs.len() && s.oneq == one && s.twoq == two && s.moreq == gs.len() - one - two && s.cliff == cliff && s.non_cliff == gs.len() - cliff;
            cb(&|| format!("{:?}", gs.iter().map(|g| (g.t, g.qs.clone(), g.phase)).collect::<Vec<_>>()), if ok { Ok(()) } else { Err(format!("got {:?}", s)) });
        }
    });
}
