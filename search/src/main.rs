//! Executable contracts for the claimed properties, evaluated on exhaustive SMALL domains against the real crate.
//! Role (see DESIGN.md §2.5): (1) find a concrete failing input when a Verus obligation fails (Verus gives no counterexample);
//! (2) bounded stand-in when a proof cannot be re-established after an edit (anchor lost / construct outside the subset);
//! (3) extra bounded evidence in the thorough tier.  Never counted as proof.
//!
//! usage: verif-search <property> [--only <check>]      output: one JSON object per line
mod c01; mod c02; mod c04; mod c07; mod c09; mod c10; mod c11; mod c12; mod c15; mod c16; mod c17; mod c18; mod c19;

use std::panic;

/// domain scale: 1 in the quick tier, larger in the thorough tier (VERIF_SEARCH_SCALE)
pub fn scale() -> u64 { std::env::var("VERIF_SEARCH_SCALE").ok().and_then(|s| s.parse().ok()).unwrap_or(1) }

pub struct Ctx { pub only: Option<String>, pub results: Vec<(String, u64, u64, Option<String>)> }

impl Ctx {
    /// run one named check: `f` reports each case through the callback (input description, Ok or Err(detail))
    pub fn check(&mut self, name: &str, f: impl FnOnce(&mut dyn FnMut(&dyn Fn() -> String, Result<(), String>))) {
        if let Some(o) = &self.only { if o != name { return; } }
        let mut cases = 0u64; let mut failed = 0u64; let mut first: Option<String> = None;
        let r = panic::catch_unwind(panic::AssertUnwindSafe(|| {
            let mut cb = |inp: &dyn Fn() -> String, res: Result<(), String>| {
                cases += 1;
                if let Err(d) = res { failed += 1; if first.is_none() { first = Some(format!("input: {} -- {}", inp(), d)); } }
            };
            f(&mut cb);
        }));
        if let Err(e) = r {
            let msg = e.downcast_ref::<String>().cloned().or_else(|| e.downcast_ref::<&str>().map(|s| s.to_string())).unwrap_or_default();
            failed += 1;
            if first.is_none() { first = Some(format!("PANIC in the code under check: {}", msg)); }
        }
        self.results.push((name.to_string(), cases, failed, first));
    }
}

/// run a closure that may panic in the code under check; a panic becomes Err
pub fn guard<T>(f: impl FnOnce() -> T) -> Result<T, String> {
    panic::catch_unwind(panic::AssertUnwindSafe(f)).map_err(|e| {
        let msg = e.downcast_ref::<String>().cloned().or_else(|| e.downcast_ref::<&str>().map(|s| s.to_string())).unwrap_or_default();
        format!("panic: {}", msg)
    })
}

fn esc(s: &str) -> String { s.replace('\\', "\\\\").replace('"', "\\\"").replace('\n', " ") }

fn main() {
    panic::set_hook(Box::new(|_| {}));
    let args: Vec<String> = std::env::args().collect();
    let pid = args.get(1).cloned().unwrap_or_default();
    let only = args.iter().position(|a| a == "--only").and_then(|i| args.get(i + 1).cloned());
    let mut cx = Ctx { only, results: vec![] };
    match pid.as_str() {
        "C01" => c01::run(&mut cx), "C02" => c02::run(&mut cx), "C04" => { c04::run(&mut cx); c10::rules_under_assignments(&mut cx); } "C07" => c07::run(&mut cx), "C09" => c09::run(&mut cx), "C11" => c11::run(&mut cx), "C12" => c12::run(&mut cx), "C10" => c10::run(&mut cx), "C15" => c15::run(&mut cx),
        "C16" => c16::run(&mut cx), "C17" => c17::run(&mut cx), "C18" => c18::run(&mut cx), "C19" => c19::run(&mut cx),
        _ => { eprintln!("no executable contracts for {}", pid); std::process::exit(2); }
    }
    let mut bad = false;
    for (name, cases, failed, first) in &cx.results {
        println!("{{\"check\": \"{}\", \"cases\": {}, \"failed\": {}, \"first_failure\": {}}}", esc(name), cases, failed,
            match first { Some(f) => format!("\"{}\"", esc(f)), None => "null".into() });
        if *failed > 0 { bad = true; }
    }
    std::process::exit(if bad { 1 } else { 0 });
}
