//! C02: Circuit -> diagram translation against the state-vector simulator of c15.rs (textbook gate matrices): for every translation option
//! (plain, simplify-while-building, post-selected CCZ gadgets) the tensor of the diagram — read through the library's evaluator, inputs first,
//! then outputs — equals the circuit's unitary entry by entry, global scalar included.
use crate::c04::Rng;
use crate::c15::{unitary, C};
use crate::{guard, Ctx};
use num::Rational64;
use quizx::circuit::Circuit;
use quizx::gate::{GType, Gate};
use quizx::graph::GraphLike;
use quizx::phase::Phase;
use quizx::tensor::ToTensor;
use quizx::vec_graph::Graph;

fn random_gate(r: &mut Rng, n: usize) -> Gate {
    let q = |r: &mut Rng, k: usize| -> Vec<usize> { let mut all: Vec<usize> = (0..n).collect(); (0..k).map(|_| all.swap_remove(r.below(all.len() as u64) as usize)).collect() };
    let ph = |r: &mut Rng| Phase::new(Rational64::new(r.below(8) as i64, 4));
    loop {
        match r.below(16) {
            0 => return Gate::new(GType::HAD, q(r, 1)), 1 => return Gate::new(GType::NOT, q(r, 1)), 2 => return Gate::new(GType::Z, q(r, 1)), 3 => return Gate::new(GType::S, q(r, 1)),
            4 => return Gate::new(GType::T, q(r, 1)), 5 => return Gate::new(GType::Sdg, q(r, 1)), 6 => return Gate::new(GType::Tdg, q(r, 1)),
            7 => { let p = ph(r); return Gate::new_with_phase(GType::ZPhase, q(r, 1), p) }, 8 => { let p = ph(r); return Gate::new_with_phase(GType::XPhase, q(r, 1), p) },
            9 if n >= 2 => return Gate::new(GType::CNOT, q(r, 2)), 10 if n >= 2 => return Gate::new(GType::CZ, q(r, 2)), 11 if n >= 2 => return Gate::new(GType::XCX, q(r, 2)),
            12 if n >= 2 => return Gate::new(GType::SWAP, q(r, 2)), 13 if n >= 3 => return Gate::new(GType::CCZ, q(r, 3)), 14 if n >= 3 => return Gate::new(GType::TOFF, q(r, 3)),
            15 => { let k = 1 + r.below(n as u64) as usize; let p = ph(r); return Gate::new_with_phase(GType::ParityPhase, q(r, k), p) },
            _ => {}
        }
    }
}

pub fn run(cx: &mut Ctx) {
    let seed: u64 = std::env::var("VERIF_SEED").ok().and_then(|s| s.parse().ok()).unwrap_or(0);
    let mut r = Rng(0xc02_5eed ^ seed.wrapping_mul(0x9e3779b97f4a7c15));
    let mut circuits: Vec<Circuit> = vec![];
    // every single gate kind on every arity first, then random circuits
    for n in 1..=3usize { for _ in 0..40 { let mut c = Circuit::new(n); c.push(random_gate(&mut r, n)); circuits.push(c); } }
    for _ in 0..60 * crate::scale() { let n = 1 + r.below(3) as usize; let mut c = Circuit::new(n); for _ in 0..1 + r.below(7) { c.push(random_gate(&mut r, n)); } circuits.push(c); }
    for (name, simplify, postselect) in [("plain", false, false), ("simplify_while_building", true, false), ("postselected_ccz", false, true)] {
        cx.check(&format!("to_graph_{}", name), |cb| {
            for c in &circuits {
                let res = (|| {
                    let n = c.num_qubits();
                    let u = unitary(c, n)?;
                    let g: Graph = guard(|| c.to_graph_with_options(simplify, postselect))?;
                    if g.inputs().len() != n || g.outputs().len() != n { return Err(format!("{} inputs and {} outputs for {} qubits", g.inputs().len(), g.outputs().len(), n)); }
                    let t = guard(|| g.to_tensorf())?;
                    for i in 0..1usize << n { for o in 0..1usize << n {
                        let mut ix: Vec<usize> = (0..n).map(|q| i >> q & 1).collect(); ix.extend((0..n).map(|q| o >> q & 1));
                        let got: C = t[&ix[..]];
                        let want = u[i][o];
                        if (got - want).norm() > 1e-9 { return Err(format!("entry <{:0w$b}|U|{:0w$b}> (qubit 0 = lowest bit): the diagram gives {}, the gate matrices give {}", o, i, got, want, w = n)); }
                    } }
                    Ok(())
                })();
                cb(&|| format!("{} qubits {:?}", c.num_qubits(), c.gates.iter().map(|g| format!("{:?}{:?}({})", g.t, g.qs, g.phase)).collect::<Vec<_>>()), res);
            }
        });
    }
}
