//! C02: Circuit -> diagram translation against the state-vector simulator of c15.rs (textbook gate matrices): for every translation option
//! (plain, simplify-while-building, post-selected CCZ gadgets) the tensor of the diagram — read through the library's evaluator, inputs first,
//! then outputs — equals the circuit's unitary entry by entry, global scalar included.
use crate::c04::Rng;
use crate::c15::{unitary, C};
use crate::{guard, Ctx};
use num::Rational64;
use quizx::circuit::Circuit;
use quizx::gate::{GType, Gate};
use quizx::graph::GraphLike;
use quizx::phase::Phase;
use quizx::tensor::ToTensor;
use quizx::vec_graph::Graph;

fn random_gate(r: &mut Rng, n: usize) -> Gate {
    let q = |r: &mut Rng, k: usize| -> Vec<usize> { let mut all: Vec<usize> = (0..n).collect(); (0..k).map(|_| all.swap_remove(r.below(all.len() as u64) as usize)).collect() };
    let ph = |r: &mut Rng| Phase::new(Rational64::new(r.below(8) as i64, 4));
    loop {
        match r.below(16) {
            0 => return Gate::new(GType::HAD, q(r, 1)), 1 => return Gate::new(GType::NOT, q(r, 1)), 2 => return Gate::new(GType::Z, q(r, 1)), 3 => return Gate::new(GType::S, q(r, 1)),
            4 => return Gate::new(GType::T, q(r, 1)), 5 => return Gate::new(GType::Sdg, q(r, 1)), 6 => return Gate::new(GType::Tdg, q(r, 1)),
            7 => { let p = ph(r); return Gate::new_with_phase(GType::ZPhase, q(r, 1), p) }, 8 => { let p = ph(r); return Gate::new_with_phase(GType::XPhase, q(r, 1), p) },
            9 if n >= 2 => return Gate::new(GType::CNOT, q(r, 2)), 10 if n >= 2 => return Gate::new(GType::CZ, q(r, 2)), 11 if n >= 2 => return Gate::new(GType::XCX, q(r, 2)),
            12 if n >= 2 => return Gate::new(GType::SWAP, q(r, 2)), 13 if n >= 3 => return Gate::new(GType::CCZ, q(r, 3)), 14 if n >= 3 => return Gate::new(GType::TOFF, q(r, 3)),
            15 => { let k = 1 + r.below(n as u64) as usize; let p = ph(r); return Gate::new_with_phase(GType::ParityPhase, q(r, k), p) },
            _ => {}
        }
    }
}

pub fn run(cx: &mut Ctx) {
    let seed: u64 = std::env::var("VERIF_SEED").ok().and_then(|s| s.parse().ok()).unwrap_or(0);
    let mut r = Rng(0xc02_5eed ^ seed.wrapping_mul(0x9e3779b97f4a7c15));
    let mut circuits: Vec<Circuit> = vec![];
    // every single gate kind on every arity first, then random circuits
    for n in 1..=3usize { for _ in 0..40 { let mut c = Circuit::new(n); c.push(random_gate(&mut r, n)); circuits.push(c); } }
    for _ in 0..60 * crate::scale() { let n = 1 + r.below(3) as usize; let mut c = Circuit::new(n); for _ in 0..1 + r.below(7) { c.push(random_gate(&mut r, n)); } circuits.push(c); }
    for (name, simplify, postselect) in [("plain", false, false), ("simplify_while_building", true, false), ("postselected_ccz", false, true)] {
        cx.check(&format!("to_graph_{}", name), |cb| {
            for (ci, c) in circuits.iter().enumerate() {
                let res = (|| {
                    let n = c.num_qubits();
                    let u = unitary(c, n)?;
                    let g: Graph = guard(|| c.to_graph_with_options(simplify, postselect))?;
                    if g.inputs().len() != n || g.outputs().len() != n { return Err(format!("{} inputs and {} outputs for {} qubits", g.inputs().len(), g.outputs().len(), n)); }
                    let t = guard(|| g.to_tensorf())?;
                    // the hash backend must give the same map (the translation is generic over the backend); its tensor evaluation is slow,
                    // so only every eighth circuit is compared in the quick tier
                    if ci % 8 == 0 {
                        let gh: quizx::hash_graph::Graph = guard(|| c.to_graph_with_options(simplify, postselect))?;
                        let th = guard(|| gh.to_tensorf())?;
                        if th.shape() != t.shape() || th.iter().zip(t.iter()).any(|(a, b)| (a - b).norm() > 1e-9) { return Err("the hash backend and the vector backend give different tensors".into()); }
                    }
                    for i in 0..1usize << n { for o in 0..1usize << n {
                        let mut ix: Vec<usize> = (0..n).map(|q| i >> q & 1).collect(); ix.extend((0..n).map(|q| o >> q & 1));
                        let got: C = t[&ix[..]];
                        let want = u[i][o];
                        if (got - want).norm() > 1e-9 { return Err(format!("entry <{:0w$b}|U|{:0w$b}> (qubit 0 = lowest bit): the diagram gives {}, the gate matrices give {}", o, i, got, want, w = n)); }
                    } }
                    Ok(())
                })();
                cb(&|| format!("{} qubits {:?}", c.num_qubits(), c.gates.iter().map(|g| format!("{:?}{:?}({})", g.t, g.qs, g.phase)).collect::<Vec<_>>()), res);
            }
        });
    }
    // ancilla initialisation (a qubit's first operation) and post-selection (its last): the diagram loses that input / output, the map is the
    // unitary of the remaining gates with the ancilla inputs fixed to |0> and the post-selected outputs projected on <0|.  Gates after a
    // post-selection act on the other qubits only (SWAPs before it move the wires around).
    let mut cases: Vec<(Circuit, Circuit, Vec<usize>, Vec<usize>)> = vec![];
    for _ in 0..60 * crate::scale() {
        let n = 1 + r.below(3) as usize;
        let anc: Vec<usize> = (0..n).filter(|_| r.below(3) == 0).collect();
        let post: Vec<usize> = (0..n).filter(|_| r.below(3) == 0).collect();
        let mut full = Circuit::new(n); let mut core = Circuit::new(n);
        for &a in &anc { full.push(Gate::new(GType::InitAncilla, vec![a])); }
        let l1 = r.below(6); for _ in 0..l1 { let g = random_gate(&mut r, n); full.push(g.clone()); core.push(g); }
        for &p in &post { full.push(Gate::new(GType::PostSelect, vec![p])); }
        let rest: Vec<usize> = (0..n).filter(|q| !post.contains(q)).collect();
        if !rest.is_empty() {
            let l2 = r.below(4);
            for _ in 0..l2 {
                let g = random_gate(&mut r, n);
                if g.qs.iter().all(|q| rest.contains(q)) { full.push(g.clone()); core.push(g); }
            }
        }
        cases.push((full, core, anc, post));
    }
    for (name, simplify, postselect) in [("plain", false, false), ("simplify_while_building", true, false), ("postselected_ccz", false, true)] {
        cx.check(&format!("to_graph_ancilla_postselect_{}", name), |cb| {
            for (full, core, anc, post) in &cases {
                let res = (|| {
                    let n = full.num_qubits();
                    let u = unitary(core, n)?;
                    let g: Graph = guard(|| full.to_graph_with_options(simplify, postselect))?;
                    let ins: Vec<usize> = (0..n).filter(|q| !anc.contains(q)).collect();
                    let outs: Vec<usize> = (0..n).filter(|q| !post.contains(q)).collect();
                    if g.inputs().len() != ins.len() || g.outputs().len() != outs.len() { return Err(format!("{} inputs and {} outputs, expected {} and {}", g.inputs().len(), g.outputs().len(), ins.len(), outs.len())); }
                    let t = guard(|| g.to_tensorf())?;
                    for i in 0..1usize << ins.len() { for o in 0..1usize << outs.len() {
                        let mut ix: Vec<usize> = (0..ins.len()).map(|k| i >> k & 1).collect(); ix.extend((0..outs.len()).map(|k| o >> k & 1));
                        let got: C = t[&ix[..]];
                        let fi: usize = ins.iter().enumerate().map(|(k, q)| (i >> k & 1) << q).sum();
                        let fo: usize = outs.iter().enumerate().map(|(k, q)| (o >> k & 1) << q).sum();
                        let want = u[fi][fo];
                        if (got - want).norm() > 1e-9 { return Err(format!("entry in={:b} out={:b} over the remaining qubits: the diagram gives {}, the gate matrices give {}", i, o, got, want)); }
                    } }
                    Ok(())
                })();
                cb(&|| format!("{} qubits {:?}", full.num_qubits(), full.gates.iter().map(|g| format!("{:?}{:?}({})", g.t, g.qs, g.phase)).collect::<Vec<_>>()), res);
            }
        });
    }
}
