//! C09: the vector- and the hash-backed graph under seeded operation histories, compared with each other through a
//! name bijection maintained by the harness, and each checked for internal consistency after every operation.
use crate::{guard, Ctx};
use num::Rational64;
use quizx::graph::{EType, GraphLike, VData, VType};
use quizx::phase::Phase;
use quizx::scalar::Scalar4;
use std::collections::BTreeMap;

struct Rng(u64);
impl Rng { fn n(&mut self, m: usize) -> usize { self.0 ^= self.0 << 13; self.0 ^= self.0 >> 7; self.0 ^= self.0 << 17; (self.0 >> 11) as usize % m.max(1) } }

/// observable state with vertices renamed through `ren` (backend name -> harness name)
fn observe<G: GraphLike>(g: &G, ren: &BTreeMap<usize, usize>) -> Result<String, String> {
    let mut vs: Vec<usize> = g.vertices().collect(); vs.sort();
    if vs.len() != g.num_vertices() { return Err(format!("num_vertices() = {} but {} vertices are enumerated", g.num_vertices(), vs.len())); }
    let es: Vec<(usize, usize, EType)> = g.edges().collect();
    if es.len() != g.num_edges() { return Err(format!("num_edges() = {} but {} edges are enumerated", g.num_edges(), es.len())); }
    let r = |v: usize| ren.get(&v).copied().ok_or(format!("vertex {} is not known to the harness", v));
    let mut out = String::new();
    let mut vd = vec![];
    for &v in &vs {
        if !g.contains_vertex(v) { return Err(format!("enumerated vertex {} is not contained", v)); }
        let d = g.vertex_data(v);
        let mut nb: Vec<(usize, EType)> = vec![];
        for (u, et) in g.incident_edges(v) {
            if g.edge_type_opt(u, v) != Some(et) || g.edge_type_opt(v, u) != Some(et) || !g.connected(u, v) { return Err(format!("adjacency not symmetric at {} - {}", v, u)); }
            nb.push((r(u)?, et));
        }
        nb.sort();
        if nb.len() != g.degree(v) || nb.windows(2).any(|w| w[0].0 == w[1].0) { return Err(format!("degree / repeated neighbour at {}", v)); }
        let mut nv: Vec<usize> = g.neighbors(v).map(|u| r(u).unwrap_or(usize::MAX)).collect(); nv.sort();
        if nv != nb.iter().map(|x| x.0).collect::<Vec<_>>() { return Err(format!("neighbors() and incident_edges() disagree at {}", v)); }
        vd.push((r(v)?, format!("{:?} {} {:?} q{} r{} nb{:?}", d.ty, d.phase, d.vars, d.qubit, d.row, nb)));
    }
    vd.sort();
    let mut el: Vec<(usize, usize, EType)> = vec![];
    for (a, b, t) in es { let (x, y) = (r(a)?, r(b)?); el.push((x.min(y), x.max(y), t)); }
    el.sort();
    if el.windows(2).any(|w| (w[0].0, w[0].1) == (w[1].0, w[1].1)) { return Err("an edge is enumerated twice".into()); }
    let ins: Result<Vec<usize>, String> = g.inputs().iter().map(|&v| r(v)).collect();
    let outs: Result<Vec<usize>, String> = g.outputs().iter().map(|&v| r(v)).collect();
    out += &format!("V{:?} E{:?} I{:?} O{:?} S{:?}", vd, el, ins?, outs?, g.scalar());
    Ok(out)
}

pub fn run(cx: &mut Ctx) {
    cx.check("backends_agree_and_stay_consistent", |cb| {
        for seed in 1..=60 * crate::scale() {
            let mut rng = Rng(seed.wrapping_mul(0x9E3779B97F4A7C15) | 1);
            let mut a = quizx::vec_graph::Graph::new();
            let mut b = quizx::hash_graph::Graph::new();
            // harness names 0,1,2,... ; ra / rb: backend name -> harness name
            let (mut ra, mut rb): (BTreeMap<usize, usize>, BTreeMap<usize, usize>) = (BTreeMap::new(), BTreeMap::new());
            let mut next = 0usize;
            let mut hist: Vec<String> = vec![];
            let mut dead: Vec<(usize, usize)> = vec![];   // names of removed vertices (vec backend, hash backend)
            for step in 0..60 {
                let live: Vec<usize> = ra.values().copied().collect();
                let inv = |m: &BTreeMap<usize, usize>, h: usize| *m.iter().find(|(_, &x)| x == h).unwrap().0;
                let pick = |rng: &mut Rng| live[rng.n(live.len())];
                let op = rng.n(18);
                let res: Result<(), String> = guard(|| -> Result<(), String> {
                    match op {
                        0 | 1 | 2 => { let ty = [VType::Z, VType::X, VType::B][rng.n(3)]; let ph = Phase::new(Rational64::new(rng.n(8) as i64, 4));
                            let (va, vb) = (a.add_vertex_with_phase(ty, ph), b.add_vertex_with_phase(ty, ph));
                            if ra.contains_key(&va) || rb.contains_key(&vb) { return Err(format!("add_vertex returned a name already in use ({}, {})", va, vb)); }
                            ra.insert(va, next); rb.insert(vb, next); hist.push(format!("add_vertex({:?}) -> h{}", ty, next)); next += 1; }
                        3 | 4 | 5 if live.len() >= 2 => { let (x, y) = (pick(&mut rng), pick(&mut rng)); let et = [EType::N, EType::H][rng.n(2)];
                            if x != y { let (xa, ya, xb, yb) = (inv(&ra, x), inv(&ra, y), inv(&rb, x), inv(&rb, y));
                                if a.connected(xa, ya) != b.connected(xb, yb) { return Err("connected() differs".into()); }
                                if !a.connected(xa, ya) { a.add_edge_with_type(xa, ya, et); b.add_edge_with_type(xb, yb, et); hist.push(format!("add_edge(h{}, h{}, {:?})", x, y, et)); }
                                else if rng.n(2) == 0 { a.remove_edge(xa, ya); b.remove_edge(xb, yb); hist.push(format!("remove_edge(h{}, h{})", x, y)); }
                                else { a.set_edge_type(xa, ya, et); b.set_edge_type(xb, yb, et); hist.push(format!("set_edge_type(h{}, h{}, {:?})", x, y, et)); } } }
                        6 if !live.is_empty() => { let x = pick(&mut rng); let (xa, xb) = (inv(&ra, x), inv(&rb, x));
                            a.remove_vertex(xa); b.remove_vertex(xb); ra.remove(&xa); rb.remove(&xb); dead.push((xa, xb));
                            let ia: Vec<usize> = a.inputs().iter().copied().filter(|&v| v != xa).collect(); let ib: Vec<usize> = b.inputs().iter().copied().filter(|&v| v != xb).collect();
                            let oa: Vec<usize> = a.outputs().iter().copied().filter(|&v| v != xa).collect(); let ob: Vec<usize> = b.outputs().iter().copied().filter(|&v| v != xb).collect();
                            a.set_inputs(ia); b.set_inputs(ib); a.set_outputs(oa); b.set_outputs(ob);
                            hist.push(format!("remove_vertex(h{})", x)); }
                        7 if !live.is_empty() => { let x = pick(&mut rng); let ph = Phase::new(Rational64::new(rng.n(16) as i64, 8)); a.set_phase(inv(&ra, x), ph); b.set_phase(inv(&rb, x), ph); hist.push(format!("set_phase(h{}, {})", x, ph)); }
                        8 if !live.is_empty() => { let x = pick(&mut rng); let ty = [VType::Z, VType::X][rng.n(2)]; a.set_vertex_type(inv(&ra, x), ty); b.set_vertex_type(inv(&rb, x), ty); a.set_qubit(inv(&ra, x), step as f64); b.set_qubit(inv(&rb, x), step as f64); hist.push(format!("set_vertex_type(h{}, {:?}) + set_qubit", x, ty)); }
                        9 if live.len() >= 2 => { let (x, y) = (pick(&mut rng), pick(&mut rng)); let et = [EType::N, EType::H][rng.n(2)];
                            let sp = |g: &quizx::vec_graph::Graph, v| matches!(g.vertex_type(v), VType::Z | VType::X);
                            if sp(&a, inv(&ra, x)) && sp(&a, inv(&ra, y)) { a.add_edge_smart(inv(&ra, x), inv(&ra, y), et); b.add_edge_smart(inv(&rb, x), inv(&rb, y), et); hist.push(format!("add_edge_smart(h{}, h{}, {:?})", x, y, et)); } }
                        10 if !live.is_empty() => { let k = rng.n(3); let sel: Vec<usize> = (0..k).map(|_| pick(&mut rng)).collect();
                            a.set_inputs(sel.iter().map(|&h| inv(&ra, h)).collect()); b.set_inputs(sel.iter().map(|&h| inv(&rb, h)).collect());
                            let sel2: Vec<usize> = (0..k).map(|_| pick(&mut rng)).collect();
                            a.set_outputs(sel2.iter().map(|&h| inv(&ra, h)).collect()); b.set_outputs(sel2.iter().map(|&h| inv(&rb, h)).collect()); hist.push(format!("set_inputs({:?}) set_outputs({:?})", sel, sel2)); }
                        11 => { *a.scalar_mut() *= Scalar4::new([1, 1, 0, 0], -1); *b.scalar_mut() *= Scalar4::new([1, 1, 0, 0], -1); hist.push("scalar *= (1+w)/2".into()); }
                        12 => { // compaction: surviving vertices keep their relative order
                            let force = rng.n(2) == 0;
                            let before = observe(&a, &ra)?;
                            let old: Vec<usize> = { let mut v: Vec<usize> = a.vertices().collect(); v.sort(); v };
                            let nholes_packed = { a.pack(force); a.vindex() == a.num_vertices() && old.iter().enumerate().any(|(i, &v)| i != v) || (old.iter().enumerate().all(|(i, &v)| i == v)) };
                            let mut v2: Vec<usize> = a.vertices().collect(); v2.sort();
                            if v2 != old { // renamed: must be the order-preserving compaction
                                if v2 != (0..old.len()).collect::<Vec<_>>() { return Err(format!("pack({}) left the names {:?}", force, v2)); }
                                let m: BTreeMap<usize, usize> = old.iter().enumerate().map(|(i, &v)| (i, ra[&v])).collect(); ra = m; }
                            let _ = nholes_packed;
                            if observe(&a, &ra)? != before { return Err(format!("pack({}) changed the graph (beyond a consistent renaming)", force)); }
                            b.pack(force);
                            hist.push(format!("pack({})", force)); }
                        13 if !live.is_empty() => { // named insertion at a free or taken name
                            let v = rng.n(a.vindex() + 3);
                            let (fa, fb) = (!a.contains_vertex(v), !b.contains_vertex(v));
                            let d = VData { ty: VType::Z, phase: Phase::new(Rational64::new(1, 4)), ..Default::default() };
                            let (oka, okb) = (a.add_named_vertex_with_data(v, d.clone()).is_ok(), b.add_named_vertex_with_data(v, d).is_ok());
                            if oka != fa || okb != fb { return Err(format!("add_named_vertex_with_data({}) success ({}, {}) does not match freeness ({}, {})", v, oka, okb, fa, fb)); }
                            // names are backend-specific, so a named insertion is mirrored only when the name is free in both
                            if oka && okb { ra.insert(v, next); rb.insert(v, next); next += 1; } else if oka { a.remove_vertex(v); } else if okb { b.remove_vertex(v); }
                            hist.push(format!("add_named_vertex_with_data({})", v)); }
                        14 => { // "the same success/failure of each operation": name a vertex that was removed (and whose name is not in use again)
                            let cands: Vec<(usize, usize)> = dead.iter().copied().filter(|&(xa, xb)| !a.contains_vertex(xa) && !b.contains_vertex(xb)).collect();
                            if !cands.is_empty() { let (xa, xb) = cands[rng.n(cands.len())];
                                let lv: Option<usize> = if live.is_empty() { None } else { Some(pick(&mut rng)) };
                                let probes: Vec<(&str, bool, bool)> = vec![
                                    ("degree", guard(|| a.degree(xa)).is_ok(), guard(|| b.degree(xb)).is_ok()),
                                    ("neighbors", guard(|| a.neighbors(xa).count()).is_ok(), guard(|| b.neighbors(xb).count()).is_ok()),
                                    ("vertex_type", guard(|| a.vertex_type(xa)).is_ok(), guard(|| b.vertex_type(xb)).is_ok()),
                                    ("remove_vertex", guard(|| { let mut c = a.clone(); c.remove_vertex(xa); }).is_ok(), guard(|| { let mut c = b.clone(); c.remove_vertex(xb); }).is_ok()),
                                    ("add_edge_with_type(live, removed)", match lv { Some(h) => guard(|| { let mut c = a.clone(); c.add_edge_with_type(inv(&ra, h), xa, EType::N); }).is_ok(), None => false },
                                                                          match lv { Some(h) => guard(|| { let mut c = b.clone(); c.add_edge_with_type(inv(&rb, h), xb, EType::N); }).is_ok(), None => false }),
                                ];
                                hist.push(format!("probe removed vertex (vec {}, hash {})", xa, xb));
                                for (name, oka, okb) in probes { if oka != okb { return Err(format!("{} on a removed vertex: vec backend {}, hash backend {}", name, if oka { "succeeds" } else { "fails" }, if okb { "succeeds" } else { "fails" })); } } } }
                        15 if !live.is_empty() => { // variables and coordinates
                            let x = pick(&mut rng); let (xa, xb) = (inv(&ra, x), inv(&rb, x));
                            let p = quizx::params::Parity::single(rng.n(3) as u32);
                            if rng.n(2) == 0 { a.set_vars(xa, p.clone()); b.set_vars(xb, p.clone()); } else { a.add_to_vars(xa, &p); b.add_to_vars(xb, &p); }
                            let (r, q) = (rng.n(9) as f64 * 0.5, rng.n(5) as f64);
                            if rng.n(2) == 0 { a.set_row(xa, r); b.set_row(xb, r); } else { a.set_coord(xa, (r, q)); b.set_coord(xb, (r, q)); }
                            if a.row(xa) != b.row(xb) || a.qubit(xa) != b.qubit(xb) || a.vars(xa) != b.vars(xb) { return Err("row / qubit / vars read back differently".into()); }
                            hist.push(format!("vars / coordinates of h{}", x)); }
                        16 => { // append a two-spider piece (built on the same backend): fresh names, scalars multiplied
                            fn piece<G: GraphLike>(k: usize) -> G { let mut s = G::new(); let u = s.add_vertex_with_phase(VType::Z, Phase::new(Rational64::new(k as i64, 4))); let w = s.add_vertex(VType::X); s.add_edge_with_type(u, w, if k % 2 == 0 { EType::H } else { EType::N }); *s.scalar_mut() *= Scalar4::new([0, 1, 0, 0], 1); s }
                            let k = rng.n(8);
                            let (sa, sb): (quizx::vec_graph::Graph, quizx::hash_graph::Graph) = (piece(k), piece(k));
                            let (ma, mb) = (a.append_graph(&sa), b.append_graph(&sb));
                            let (mut ka, mut kb): (Vec<usize>, Vec<usize>) = (sa.vertices().collect(), sb.vertices().collect()); ka.sort(); kb.sort();
                            if ka.len() != 2 || kb.len() != 2 || ma.len() != 2 || mb.len() != 2 { return Err("append_graph: the renaming does not cover the appended vertices".into()); }
                            for i in 0..2 { let (na, nb) = (ma[&ka[i]], mb[&kb[i]]);
                                if ra.contains_key(&na) || rb.contains_key(&nb) { return Err(format!("append_graph reused a live name ({}, {})", na, nb)); }
                                ra.insert(na, next); rb.insert(nb, next); next += 1; }
                            hist.push(format!("append_graph(piece {})", k)); }
                        17 if live.len() >= 2 => { // induced sub-graph on a selection (in the given order): both backends, and against the definition
                            let mut sel: Vec<usize> = vec![]; for _ in 0..1 + rng.n(4) { let h = pick(&mut rng); if !sel.contains(&h) { sel.push(h); } }
                            let (va, vb): (Vec<usize>, Vec<usize>) = (sel.iter().map(|&h| inv(&ra, h)).collect(), sel.iter().map(|&h| inv(&rb, h)).collect());
                            let (ga, gb) = (a.subgraph_from_vertices(va.clone()), b.subgraph_from_vertices(vb));
                            let idm: BTreeMap<usize, usize> = { let mut vs: Vec<usize> = ga.vertices().collect(); vs.sort(); vs.into_iter().enumerate().map(|(i, v)| (v, i)).collect() };
                            let idh: BTreeMap<usize, usize> = { let mut vs: Vec<usize> = gb.vertices().collect(); vs.sort(); vs.into_iter().enumerate().map(|(i, v)| (v, i)).collect() };
                            if observe(&ga, &idm)? != observe(&gb, &idh)? { return Err(format!("subgraph_from_vertices({:?}) differs between the backends", sel)); }
                            if ga.num_vertices() != sel.len() { return Err("sub-graph has the wrong number of vertices".into()); }
                            let want = a.edges().filter(|(s, t, _)| va.contains(s) && va.contains(t)).count();
                            if ga.num_edges() != want { return Err(format!("sub-graph on {:?} has {} edges, the induced sub-graph has {}", sel, ga.num_edges(), want)); }
                            let names: Vec<usize> = { let mut vs: Vec<usize> = ga.vertices().collect(); vs.sort(); vs };
                            for (i, &v) in va.iter().enumerate() { let (d0, d1) = (a.vertex_data(v), ga.vertex_data(names[i])); if d0.ty != d1.ty || d0.phase != d1.phase || d0.vars != d1.vars { return Err("sub-graph vertex data differ from the original's".into()); }
                                for (j, &w) in va.iter().enumerate() { if a.edge_type_opt(v, w) != ga.edge_type_opt(names[i], names[j]) { return Err(format!("sub-graph wire ({}, {}) differs from the original's", i, j)); } } }
                            hist.push(format!("subgraph_from_vertices({:?})", sel)); }
                        _ => {}
                    }
                    let (oa, ob) = (observe(&a, &ra)?, observe(&b, &rb)?);
                    if oa != ob { return Err(format!("the two backends expose different graphs:\n vec : {}\n hash: {}", oa, ob)); }
                    let c = a.clone();
                    if observe(&c, &ra)? != oa { return Err("a clone differs from its original".into()); }
                    Ok(())
                }).and_then(|r| r);
                let bad = res.is_err();
                cb(&|| format!("seed {} history {:?}", seed, hist), res);
                if bad { break; }
            }
        }
    });
}
