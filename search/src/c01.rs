//! C01: every public simplification procedure of simplify.rs on small pseudo-random diagrams and on diagrams of small random circuits:
//! it returns (within a time budget), does not panic, and keeps the EXACT tensor (entries in Z[omega]/2^k) — relative to the library's
//! own tensor evaluator.  Phases are multiples of pi/4, so equality is exact.
use crate::c04::{describe, diagram, gadget_farm, same_map, scalar_pieces, star, Rng};
use crate::{guard, Ctx};
use quizx::circuit::Circuit;
use quizx::graph::GraphLike;
use quizx::simplify::*;
use quizx::vec_graph::Graph;
use std::sync::mpsc;
use std::time::Duration;

fn circuit_diagram(r: &mut Rng) -> Graph {
    let n = 1 + r.below(3) as usize;
    let mut c = Circuit::new(n);
    let one = ["h", "t", "s", "z", "x", "tdg", "sdg"];
    for _ in 0..r.below(9) {
        if n >= 2 && r.below(3) == 0 {
            let a = r.below(n as u64) as usize; let mut b = r.below(n as u64 - 1) as usize; if b >= a { b += 1; }
            c.add_gate(if r.below(2) == 0 { "cx" } else { "cz" }, vec![a, b]);
        } else {
            c.add_gate(one[r.below(one.len() as u64) as usize], vec![r.below(n as u64) as usize]);
        }
    }
    c.to_graph()
}

/// run f on a copy of g in its own thread; Err on panic or when the time budget is exceeded (a simplifier that does not terminate)
fn run_bounded(g: &Graph, f: fn(&mut Graph) -> bool) -> Result<Graph, String> {
    let (tx, rx) = mpsc::channel();
    let mut h = g.clone();
    std::thread::spawn(move || { let r = guard(|| { f(&mut h); h }); let _ = tx.send(r); });
    match rx.recv_timeout(Duration::from_secs(20)) { Ok(r) => r, Err(_) => Err("did not return within 20 s (non-termination?)".to_string()) }
}

pub fn run(cx: &mut Ctx) {
    let seed: u64 = std::env::var("VERIF_SEED").ok().and_then(|s| s.parse().ok()).unwrap_or(0);
    let n = 150 * crate::scale();
    let mut r = Rng(0xc01_5eed ^ seed.wrapping_mul(0x9e3779b97f4a7c15));
    let mut diagrams: Vec<Graph> = (0..n).map(|k| match k % 5 { 0 => diagram(&mut r, false), 1 => diagram(&mut r, true), 2 => star(&mut r), 3 => gadget_farm(&mut r), _ => circuit_diagram(&mut r) }).collect();
    diagrams.extend(scalar_pieces());
    diagrams.extend(crate::c04::gadget_pairs());      // hubs with phases 0 / pi / pi/2 (seed C04-F)
    let simps: Vec<(&str, fn(&mut Graph) -> bool)> = vec![
        ("id_simp", |g| id_simp(g)), ("local_comp_simp", |g| local_comp_simp(g)), ("spider_simp", |g| spider_simp(g)), ("pivot_simp", |g| pivot_simp(g)),
        ("gen_pivot_simp", |g| gen_pivot_simp(g)), ("scalar_simp", |g| scalar_simp(g)), ("flow_simp", |g| flow_simp(g)),
        ("interior_clifford_simp", |g| interior_clifford_simp(g)), ("clifford_simp", |g| clifford_simp(g)), ("fuse_gadgets", |g| fuse_gadgets(g)), ("full_simp", |g| full_simp(g)),
        ("x_to_z", |g| { g.x_to_z(); true }),
        ("local_gslc_simp_everywhere", |g| { let vs = g.vertex_vec(); local_gslc_simp(g, vs); true }),
        ("local_ap_simp_everywhere", |g| { let vs = g.vertex_vec(); local_ap_simp(g, vs); true }),
    ];
    for (name, f) in simps {
        cx.check(&format!("simp_{}", name), |cb| {
            for g in &diagrams {
                let res = run_bounded(g, f).and_then(|h| {
                    if h.inputs().len() != g.inputs().len() || h.outputs().len() != g.outputs().len() { return Err("the number of inputs / outputs changed".to_string()); }
                    same_map(g, &h)
                });
                cb(&|| format!("{} on {}", name, describe(g)), res);
            }
        });
    }
    // "for both graph backends": the same diagrams rebuilt on the hash backend (same vertex names), the composite simplifiers run there,
    // exact tensor compared with the ORIGINAL's (a subset: the hash backend's tensor evaluation is ~20x slower)
    fn to_hash(g: &Graph) -> Result<quizx::hash_graph::Graph, String> {
        let mut h = quizx::hash_graph::Graph::new();
        let mut vs: Vec<usize> = g.vertices().collect(); vs.sort();
        for v in vs { h.add_named_vertex_with_data(v, g.vertex_data(v).clone()).map_err(|e| e.to_string())?; }
        for (s, t, et) in g.edges() { h.add_edge_with_type(s, t, et); }
        h.set_inputs(g.inputs().clone()); h.set_outputs(g.outputs().clone());
        *h.scalar_mut() = *g.scalar();
        Ok(h)
    }
    type H = quizx::hash_graph::Graph;
    let hsimps: Vec<(&str, fn(&mut H) -> bool)> = vec![
        ("clifford_simp", |g| clifford_simp(g)), ("full_simp", |g| full_simp(g)), ("flow_simp", |g| flow_simp(g)), ("fuse_gadgets", |g| fuse_gadgets(g)), ("scalar_simp", |g| scalar_simp(g)),
    ];
    cx.check("simp_on_hash_backend", |cb| {
        use quizx::tensor::ToTensor;
        for (k, g) in diagrams.iter().enumerate() { if k % 6 != 0 { continue; }
            for (name, f) in &hsimps {
                let res = (|| {
                    let mut h = guard(|| to_hash(g))??;
                    let before = guard(|| h.to_tensor4())?;
                    if before != guard(|| g.to_tensor4())? { return Err("the rebuilt hash-backend diagram already denotes another tensor".to_string()); }
                    guard(|| { f(&mut h); })?;
                    if h.inputs().len() != g.inputs().len() || h.outputs().len() != g.outputs().len() { return Err("the number of inputs / outputs changed".to_string()); }
                    if guard(|| h.to_tensor4())? == before { Ok(()) } else { Err("the exact tensor changed on the hash backend".to_string()) }
                })();
                cb(&|| format!("{} (hash backend) on {}", name, describe(g)), res);
            }
        }
    });
}
