//! C07: Scalar4 / Dyadic against exact big-rational arithmetic, on expression trees of depth <= 2 over a pool of constants
//! chosen to force rounding (values needing more than 64 bits, exponents 100 apart, cancellations to an approximate zero).
//! Coefficients are read back through the Debug rendering ("<mantissa>[e<exp>][~]"), the only public view of them.
use crate::{guard, Ctx};
use num::bigint::BigInt;
use num::rational::BigRational as Q;
use num::{One, Rational64, Signed, Zero};
use quizx::phase::Phase;
use quizx::scalar::{Dyadic, FromPhase, Scalar4, Sqrt2};

type M4 = [Q; 4];
fn q(n: i64) -> Q { Q::from_integer(BigInt::from(n)) }
fn pow2(e: i64) -> Q { if e >= 0 { Q::from_integer(BigInt::one() << e as usize) } else { Q::new(BigInt::one(), BigInt::one() << (-e) as usize) } }
fn m_add(a: &M4, b: &M4) -> M4 { [&a[0] + &b[0], &a[1] + &b[1], &a[2] + &b[2], &a[3] + &b[3]] }
fn m_sub(a: &M4, b: &M4) -> M4 { [&a[0] - &b[0], &a[1] - &b[1], &a[2] - &b[2], &a[3] - &b[3]] }
fn m_mul(a: &M4, b: &M4) -> M4 {
    let mut r = [Q::zero(), Q::zero(), Q::zero(), Q::zero()];
    for i in 0..4 { for j in 0..4 { let p = &a[i] * &b[j]; if i + j < 4 { r[i + j] += p; } else { r[i + j - 4] -= p; } } }
    r
}
fn m_conj(a: &M4) -> M4 { [a[0].clone(), -a[3].clone(), -a[2].clone(), -a[1].clone()] }

/// parse "Scalar4([a, b, c, d])" into (value, approx) per coefficient
fn read(s: &Scalar4) -> Result<[(Q, bool); 4], String> {
    let txt = format!("{:?}", s);
    let inner = txt.trim_start_matches("Scalar4([").trim_end_matches("])");
    let parts: Vec<&str> = inner.split(", ").collect();
    if parts.len() != 4 { return Err(format!("unexpected Debug rendering {}", txt)); }
    let mut out = vec![];
    for p in parts {
        let apx = p.ends_with('~');
        let p = p.trim_end_matches('~');
        let (m, e) = match p.split_once('e') { Some((m, e)) => (m, e.parse::<i64>().map_err(|_| txt.clone())?), None => (p, 0) };
        let m: BigInt = m.parse().map_err(|_| txt.clone())?;
        out.push((Q::from_integer(m) * pow2(e), apx));
    }
    Ok([out[0].clone(), out[1].clone(), out[2].clone(), out[3].clone()])
}
/// the honest-flag contract: every coefficient is either flagged or exactly the true value
fn honest(s: &Scalar4, truth: &M4) -> Result<(), String> {
    let c = read(s)?;
    for k in 0..4 {
        // KNOWN FINDING F8 (open): a value whose odd mantissa needs all 64 bits is rendered through Dyadic::val_and_exp()
        // with the wrong sign; such coefficients cannot be read back and are skipped here (F8 is reproduced by the Kani
        // harness known_finding_val_and_exp_64bit)
        if f8_region(&truth[k]) { continue; }
        if !c[k].1 && c[k].0 != truth[k] { return Err(format!("coefficient {} is {} and NOT flagged approximate, the exact value is {} (scalar {:?})", k, c[k].0, truth[k], s)); }
    }
    Ok(())
}
/// odd part of the numerator >= 2^63 (with a power-of-two denominator): the region of finding F8
fn f8_region(x: &Q) -> bool {
    let mut n = x.numer().abs();
    if n.is_zero() { return false; }
    while (&n % BigInt::from(2)).is_zero() { n = n / BigInt::from(2); }
    n >= (BigInt::one() << 63usize)
}
fn is_pow2(x: &Q) -> Option<i64> {
    let a = x.abs();
    if a.is_zero() { return None; }
    let (n, d) = (a.numer().clone(), a.denom().clone());
    let p = |v: &BigInt| -> Option<i64> { let b = v.bits() as i64; if *v == BigInt::one() << (b - 1) as usize { Some(b - 1) } else { None } };
    if d.is_one() { p(&n) } else if n.is_one() { p(&d).map(|e| -e) } else { None }
}
/// is the exact value omega^k * sqrt2^p ?  (structural, from the mathematics)
fn phase_form(t: &M4) -> Option<(i64, i64)> {
    let nz: Vec<usize> = (0..4).filter(|&i| !t[i].is_zero()).collect();
    if nz.len() == 1 { let i = nz[0]; let m = is_pow2(&t[i])?; Some(((if t[i].is_negative() { i + 4 } else { i }) as i64, 2 * m)) }
    else if nz.len() == 2 && (nz == [0, 2] || nz == [1, 3]) {
        let (i, j) = (nz[0], nz[1]);
        let m = is_pow2(&t[i])?; if is_pow2(&t[j])? != m { return None; }
        let k = match (i, t[i].is_negative(), t[j].is_negative()) { (1, false, true) => 0, (0, false, false) => 1, (1, false, false) => 2, (0, true, false) => 3, (1, true, false) => 4, (0, true, true) => 5, (1, true, true) => 6, _ => 7 };
        Some((k, 2 * m + 1))
    } else { None }
}

fn gcd64(a: i64, b: i64) -> i64 { let (mut a, mut b) = (a.abs(), b.abs()); while b != 0 { let t = a % b; a = b; b = t; } a }
pub fn run(cx: &mut Ctx) {
    let w = |k: i64| -> M4 { let mut m = [Q::zero(), Q::zero(), Q::zero(), Q::zero()]; let k = k.rem_euclid(8) as usize; m[k % 4] = if k >= 4 { -q(1) } else { q(1) }; m };
    let sc = |c: [i64; 4], e: i32| -> (Scalar4, M4) { (Scalar4::new(c, e), [q(c[0]) * pow2(e as i64), q(c[1]) * pow2(e as i64), q(c[2]) * pow2(e as i64), q(c[3]) * pow2(e as i64)]) };
    let sq = |p: i32| -> (Scalar4, M4) { let m = if p % 2 == 0 { [pow2((p / 2) as i64), Q::zero(), Q::zero(), Q::zero()] } else { let h = pow2(((p - 1) / 2) as i64); [Q::zero(), h.clone(), Q::zero(), -h] }; (Scalar4::sqrt2_pow(p), m) };
    let mut pool: Vec<(String, Scalar4, M4)> = vec![];
    for (name, (s, m)) in [
        ("0", sc([0, 0, 0, 0], 0)), ("1", sc([1, 0, 0, 0], 0)), ("-1", sc([-1, 0, 0, 0], 0)), ("w", sc([0, 1, 0, 0], 0)), ("w^3", sc([0, 0, 0, 1], 0)), ("i", sc([0, 0, 1, 0], 0)),
        ("3", sc([3, 0, 0, 0], 0)), ("5*2^70", sc([5, 0, 0, 0], 70)), ("2^100", sc([1, 0, 0, 0], 100)), ("2^-100", sc([1, 0, 0, 0], -100)), ("2^62+1", sc([(1 << 62) + 1, 0, 0, 0], 0)),
        ("(1+2w-3w^2+4w^3)/8", sc([1, 2, -3, 4], -3)), ("5w", sc([0, 5, 0, 0], 0)), ("sqrt2", sq(1)), ("sqrt2^-3", sq(-3)), ("2^100 w^2", sc([0, 0, 1, 0], 100)),
    ] { pool.push((name.to_string(), s, m)); }
    for (n, d) in [(3i64, 4i64), (-1, 2), (1, 1), (1, 4)] { pool.push((format!("e^(i pi {}/{})", n, d), Scalar4::from_phase(Phase::new(Rational64::new(n, d))), w(n * (4 / d)))); }

    cx.check("constants_and_constructors", |cb| {
        for (name, s, m) in &pool { cb(&|| name.clone(), honest(s, m).and_then(|_| if read(s)?.iter().any(|c| c.1) { Err(format!("constant {:?} is flagged approximate", s)) } else { Ok(()) })); }
        for p in -40..=40 { let (s, m) = sq(p); cb(&|| format!("sqrt2_pow({})", p), honest(&s, &m).and_then(|_| if s.approx() { Err("flagged".into()) } else { Ok(()) })); }
        for k in -12i64..=12 { for d in [1i64, 2, 4] { if (k * d) % 4 == 0 || true { let s = Scalar4::from_phase(Phase::new(Rational64::new(k, d))); let m = w(k * (4 / d)); cb(&|| format!("from_phase({}/{})", k, d), honest(&s, &m).and_then(|_| if s.approx() { Err("flagged".into()) } else { Ok(()) })); } } }
        cb(&|| "minus_one()".into(), honest(&Scalar4::minus_one(), &w(4)));
        for (n, d) in [(0i64, 1i64), (1, 1), (1, 2), (3, 4), (-1, 4)] { let s = Scalar4::one_plus_phase(Phase::new(Rational64::new(n, d))); cb(&|| format!("one_plus_phase({}/{})", n, d), honest(&s, &m_add(&w(0), &w(n * (4 / d))))); }
    });
    cx.check("from_phase_other_denominators", |cb| {
        // phases whose denominator does not divide 4: e^{i pi n/d} is not of the form 2^k(a + b w + c w^2 + d w^3), so the scalar must be
        // flagged approximate and be numerically close to (cos(pi n/d), sin(pi n/d)); the same through From<Phase>, mul_phase and one_plus_phase
        for d in [3i64, 5, 6, 7, 8, 12, 16, 24, 100] { for n in -d + 1..=d { if gcd64(n, d) != 1 { continue; }
            let ph = Phase::new(Rational64::new(n, d));
            let ang = std::f64::consts::PI * (n as f64) / (d as f64);
            let near = |z: num::Complex<f64>, re: f64, im: f64| (z.re - re).abs() < 1e-9 && (z.im - im).abs() < 1e-9;
            for (what, s, re, im) in [
                ("from_phase", guard(|| Scalar4::from_phase(ph)), ang.cos(), ang.sin()),
                ("From<Phase>", guard(|| { let s: Scalar4 = ph.into(); s }), ang.cos(), ang.sin()),
                ("one_plus_phase", guard(|| Scalar4::one_plus_phase(ph)), 1.0 + ang.cos(), ang.sin()),
                ("2.mul_phase", guard(|| { let mut s = Scalar4::new([2, 0, 0, 0], 0); s.mul_phase(ph); s }), 2.0 * ang.cos(), 2.0 * ang.sin()),
            ] {
                let res = match s { Err(e) => Err(e), Ok(s) => match guard(|| s.complex_value()) { Err(e) => Err(e),
                    Ok(z) => if !near(z, re, im) { Err(format!("value {} but e^(i pi {}/{}) gives ({:.6}, {:.6})", z, n, d, re, im)) }
                             else if !s.approx() { Err("the value is not exactly representable but the result is NOT flagged approximate".to_string()) } else { Ok(()) } } };
                cb(&|| format!("{}({}/{})", what, n, d), res);
            }
        } }
    });
    // level 1: all binary operations on the pool
    let mut l1: Vec<(String, Scalar4, M4)> = vec![];
    cx.check("ring_operations_depth_1", |cb| {
        for (na, a, ma) in &pool { for (nb, b, mb) in &pool {
            for (op, s, m) in [("+", guard(|| a + b), m_add(ma, mb)), ("-", guard(|| a - b), m_sub(ma, mb)), ("*", guard(|| a * b), m_mul(ma, mb))] {
                match s { Ok(s) => { cb(&|| format!("({}) {} ({})", na, op, nb), honest(&s, &m)); l1.push((format!("({}) {} ({})", na, op, nb), s, m)); } Err(e) => cb(&|| format!("({}) {} ({})", na, op, nb), Err(e)) }
            }
            // owned / assigning variants agree with the reference variants
            let mut x = *a; x += *b; let mut y = *a; y -= b; let mut z = *a; z *= *b;
            cb(&|| format!("variants ({}) ({})", na, nb), if format!("{:?}", x) == format!("{:?}", a + b) && format!("{:?}", y) == format!("{:?}", a - b) && format!("{:?}", z) == format!("{:?}", a * b) && format!("{:?}", *a * *b) == format!("{:?}", a * b) { Ok(()) } else { Err("an owned/assigning operator variant differs from the reference variant".into()) });
        }
            cb(&|| format!("conj({})", na), honest(&a.conj(), &m_conj(ma)));
        }
    });
    cx.check("ring_operations_depth_2", |cb| {
        for (na, a, ma) in &l1 { for (nb, b, mb) in &pool {
            for (op, s, m) in [("+", guard(|| a + b), m_add(ma, mb)), ("-", guard(|| a - b), m_sub(ma, mb)), ("*", guard(|| a * b), m_mul(ma, mb)), ("*'", guard(|| b * a), m_mul(mb, ma)), ("-'", guard(|| b - a), m_sub(mb, ma))] {
                cb(&|| format!("[{}] {} ({})", na, op, nb), s.and_then(|s| honest(&s, &m)));
            }
        } }
    });
    cx.check("approximate_zero_operands", |cb| {
        // stored value 0 but flagged approximate: (big + small) - big, whose true value is `small`
        let mut ts: Vec<(String, Scalar4, M4)> = vec![];
        for (nb, big, mb) in pool.iter().filter(|p| ["2^100", "2^100 w^2", "5*2^70"].contains(&p.0.as_str())) {
            for (ns, small, ms) in pool.iter().filter(|p| ["1", "w", "i", "3", "5w", "(1+2w-3w^2+4w^3)/8"].contains(&p.0.as_str())) {
                let t = (big + small) - big;
                ts.push((format!("(({}) + ({})) - ({})", nb, ns, nb), t, m_sub(&m_add(mb, ms), mb)));
            }
        }
        for (nt, t, mt) in &ts { for (na, a, ma) in &pool {
            for (op, s, m) in [("*", guard(|| a * t), m_mul(ma, mt)), ("*'", guard(|| t * a), m_mul(mt, ma)), ("+", guard(|| a + t), m_add(ma, mt)), ("-'", guard(|| t - a), m_sub(mt, ma))] {
                cb(&|| format!("({}) {} [{}]", na, op, nt), s.and_then(|s| honest(&s, &m)));
            }
            // and once more on top of the product, so that a dropped flag shows up as a wrong exact value
            if let Ok(p) = guard(|| a * t) { cb(&|| format!("(({}) * [{}]) + 1", na, nt), honest(&(p + Scalar4::new([1, 0, 0, 0], 0)), &m_add(&m_mul(ma, mt), &[q(1), Q::zero(), Q::zero(), Q::zero()]))); }
        } }
    });
    cx.check("float_conversions", |cb| {
        // every f64 is a dyadic rational: each float constructor must store it EXACTLY (and flag it approximate),
        // and conversion back must return it
        let fs: Vec<f64> = vec![0.0, 1.0, -1.0, 0.5, 0.1, -0.3, 3.0, 1e-30, -2.5e-300, 1e19, 1e30, -1e30, 9223372036854775808.0, -9223372036854775808.0, 18446744073709551616.0,
                                4503599627370497.0, 9007199254740993.0 * 4.0, f64::MIN_POSITIVE, 5e-324, 1.7976931348623157e300, std::f64::consts::PI, -std::f64::consts::SQRT_2];
        for &f in &fs {
            let want = Q::from_float(f).unwrap();
            let zero = Q::zero();
            let variants: Vec<(&str, Result<Scalar4, String>, M4)> = vec![
                ("Scalar4::from(f64)", guard(|| Scalar4::from(f)), [want.clone(), zero.clone(), zero.clone(), zero.clone()]),
                ("Scalar4::real", guard(|| Scalar4::real(f)), [want.clone(), zero.clone(), zero.clone(), zero.clone()]),
                ("Scalar4::complex(1.5, f)", guard(|| Scalar4::complex(1.5, f)), [Q::from_float(1.5).unwrap(), zero.clone(), want.clone(), zero.clone()]),
                ("Scalar4::from([f, 0.25, f, -2.0])", guard(|| Scalar4::from([f, 0.25, f, -2.0])), [want.clone(), Q::from_float(0.25).unwrap(), want.clone(), Q::from_float(-2.0).unwrap()]),
                ("Scalar4::from(Complex(f, -f))", guard(|| Scalar4::from(num::complex::Complex::new(f, -f))), [want.clone(), zero.clone(), -want.clone(), zero.clone()]),
            ];
            for (name, s, m) in variants {
                let v = s.and_then(|s| {
                    let c = read(&s)?;
                    for k in 0..4 { if f8_region(&m[k]) { continue; } if c[k].0 != m[k] { return Err(format!("coefficient {} stores {} instead of the float's exact value {}", k, c[k].0, m[k])); } }
                    if f != 0.0 && !c[0].1 && name != "Scalar4::complex(1.5, f)" { return Err("a value that came from a float is not flagged approximate".into()); }
                    Ok(())
                });
                cb(&|| format!("{} with f = {:e}", name, f), v);
            }
            if f.abs() < 1e300 && (f == 0.0 || f.abs() > 1e-300) {
                let s = Scalar4::real(f);
                let back = guard(|| s.complex_value());
                cb(&|| format!("complex_value(real({:e}))", f), match back { Ok(z) if (z.re - f).abs() <= 1e-12 * f.abs() && z.im == 0.0 => Ok(()), Ok(z) => Err(format!("got {}", z)), Err(e) => Err(e) });
            }
        }
        // Dyadic <-> f64
        for &f in &fs { let d = Dyadic::from(f); if let Ok(b) = f64::try_from(d) { cb(&|| format!("f64::try_from(Dyadic::from({:e}))", f), if b == f { Ok(()) } else { Err(format!("got {:e}", b)) }); } }
    });
    cx.check("zero_one_and_phase_recognition", |cb| {
        for (name, s, m) in pool.iter().chain(l1.iter()) {
            let c = match read(s) { Ok(c) => c, Err(e) => { cb(&|| name.clone(), Err(e)); continue; } };
            if c.iter().any(|x| x.1) { continue; }     // only exact scalars
            let z = m.iter().all(|x| x.is_zero()); let o = m[0].is_one() && m[1..].iter().all(|x| x.is_zero());
            cb(&|| format!("is_zero/is_one of {}", name), if s.is_zero() == z && s.is_one() == o { Ok(()) } else { Err(format!("is_zero={} is_one={} for the exact value {:?}", s.is_zero(), s.is_one(), m)) });
            let want = phase_form(m).map(|(k, p)| (Phase::new(Rational64::new(k, 4)), p as i32));
            cb(&|| format!("exact_phase_and_sqrt2_pow of {}", name), match guard(|| s.exact_phase_and_sqrt2_pow()) { Ok(g) if g == want => Ok(()), Ok(g) => Err(format!("got {:?}, the exact value {:?} is {}", g, m, match want { Some((ph, p)) => format!("e^(i pi {}) * sqrt2^{}", ph, p), None => "not of the form omega^k sqrt2^p".into() })), Err(e) => Err(e) });
        }
        for k in 0..8i64 { for p in -9..=9i32 {
            let s = Scalar4::from_phase(Phase::new(Rational64::new(k, 4))) * Scalar4::sqrt2_pow(p);
            cb(&|| format!("omega^{} * sqrt2^{}", k, p), match guard(|| s.exact_phase_and_sqrt2_pow()) { Ok(Some((ph, pp))) if ph == Phase::new(Rational64::new(k, 4)) && pp == p => Ok(()), Ok(g) => Err(format!("got {:?}", g)), Err(e) => Err(e) });
        } }
    });
    cx.check("dyadic_order", |cb| {
        let mut ds: Vec<(Dyadic, Q)> = vec![];
        for v in [0i64, 1, -1, 3, -3, 5, (1 << 62) + 1, -(1 << 40)] { for e in [-100i32, -64, -1, 0, 1, 63, 100] { ds.push((Dyadic::new(v, e), q(v) * pow2(e as i64))); } }
        for (a, ma) in &ds { for (b, mb) in &ds {
            cb(&|| format!("cmp({:?}, {:?})", a, b), if a.cmp(b) == ma.cmp(mb) && a.partial_cmp(b) == Some(ma.cmp(mb)) { Ok(()) } else { Err(format!("got {:?}, the reals compare {:?}", a.cmp(b), ma.cmp(mb))) });
        } }
    });
}
