//! C16: phases against exact rational arithmetic in i128.
use crate::{guard, Ctx};
use num::Rational64;
use quizx::phase::Phase;

fn gcd(a: i128, b: i128) -> i128 { if b == 0 { a.abs() } else { gcd(b, a % b) } }
/// canonical representative of n/d mod 2 in (-1, 1], reduced
fn canon(n: i128, d: i128) -> (i128, i128) {
    let (mut n, mut d) = if d < 0 { (-n, -d) } else { (n, d) };
    let g = gcd(n, d); if g != 0 { n /= g; d /= g; }
    let mut r = n.rem_euclid(2 * d);
    if r > d { r -= 2 * d; }
    (r, d)
}
fn pr(p: Phase) -> (i128, i128) { let r = p.to_rational(); (*r.numer() as i128, *r.denom() as i128) }

pub fn run(cx: &mut Ctx) {
    let fr: Vec<(i64, i64)> = (1..=12).flat_map(|d| (-40..=40).map(move |n| (n, d))).collect();
    cx.check("canonical_representative", |cb| {
        for &(n, d) in &fr {
            let p = Phase::new(Rational64::new(n, d));
            cb(&|| format!("Phase::new({}/{})", n, d), if pr(p) == canon(n as i128, d as i128) { Ok(()) } else { Err(format!("stored {:?}, want {:?}", pr(p), canon(n as i128, d as i128))) });
            let q: Phase = (n, d).into();
            // compare the STORED numerator/denominator: Ratio's == cross-multiplies and would accept an unreduced value
            cb(&|| format!("Phase::from(({}, {}))", n, d), if pr(q) == canon(n as i128, d as i128) { Ok(()) } else { Err(format!("stored {:?}, want {:?}", pr(q), canon(n as i128, d as i128))) });
            let r: Phase = Rational64::new(n, d).into();
            cb(&|| format!("Phase::from(Rational64 {}/{})", n, d), if pr(r) == canon(n as i128, d as i128) { Ok(()) } else { Err(format!("stored {:?}", pr(r))) });
            let nm = p.normalize();
            cb(&|| format!("normalize({}/{})", n, d), if pr(nm) == pr(p) { Ok(()) } else { Err(format!("normalize changed a canonical phase to {:?}", pr(nm))) });
        }
        for i in -50i64..=50 { let p: Phase = i.into(); cb(&|| format!("Phase::from({})", i), if pr(p) == canon(i as i128, 1) { Ok(()) } else { Err(format!("stored {:?}", pr(p))) }); }
    });
    cx.check("arithmetic_mod_2", |cb| {
        let small: Vec<(i64, i64)> = (1..=8).flat_map(|d| (-9..=9).map(move |n| (n, d))).collect();
        for &(a, b) in &small { for &(c, d) in &small {
            let (p, q) = (Phase::new(Rational64::new(a, b)), Phase::new(Rational64::new(c, d)));
            let (a, b, c, d) = (a as i128, b as i128, c as i128, d as i128);
            cb(&|| format!("{}/{} + {}/{}", a, b, c, d), if pr(p + q) == canon(a * d + c * b, b * d) { Ok(()) } else { Err(format!("got {:?}", pr(p + q))) });
            cb(&|| format!("{}/{} - {}/{}", a, b, c, d), if pr(p - q) == canon(a * d - c * b, b * d) { Ok(()) } else { Err(format!("got {:?}", pr(p - q))) });
            let mut r = p; r += q; let mut s = p; s -= q;
            cb(&|| format!("{}/{} += / -= {}/{}", a, b, c, d), if pr(r) == pr(p + q) && pr(s) == pr(p - q) { Ok(()) } else { Err(format!("compound assignment differs from the operator: += gives {:?}, -= gives {:?}", pr(r), pr(s))) });
        }
            let p = Phase::new(Rational64::new(a, b));
            cb(&|| format!("-({}/{})", a, b), if pr(-p) == canon(-(a as i128), b as i128) { Ok(()) } else { Err(format!("got {:?}", pr(-p))) });
            for k in -13i64..=13 {
                cb(&|| format!("{}/{} * {}", a, b, k), if pr(p * k) == canon(a as i128 * k as i128, b as i128) { Ok(()) } else { Err(format!("got {:?}", pr(p * k))) });
                let mut m = p; m *= k;
                cb(&|| format!("{}/{} *= {}", a, b, k), if pr(m) == pr(p * k) { Ok(()) } else { Err("*= differs from *".into()) });
            }
        }
    });
    cx.check("classification_depends_on_class", |cb| {
        for &(n, d) in &fr {
            for via_tuple in [false, true] {
            let p: Phase = if via_tuple { (n, d).into() } else { Phase::new(Rational64::new(n, d)) };
            let (cn, cd) = canon(n as i128, d as i128);
            let pauli = cd == 1; let proper = cd == 2; let t = cd == 4;
            let ok = p.is_pauli() == pauli && p.is_proper_clifford() == proper && p.is_clifford() == (pauli || proper) && p.is_t() == t;
            cb(&|| format!("{}/{} (class {}/{}) built from {}", n, d, cn, cd, if via_tuple { "a tuple" } else { "a Rational64" }), if ok { Ok(()) } else { Err(format!("pauli={} proper={} clifford={} t={}", p.is_pauli(), p.is_proper_clifford(), p.is_clifford(), p.is_t())) });
            }
        }
    });
    cx.check("limit_denominator_closest", |cb| {
        // oracle: brute force over all denominators <= bound, minimising (distance, denominator)
        // (the order Python's Fraction.limit_denominator realises for bounds >= 2; validated against CPython offline)
        for d in 1..=40 * (if crate::scale() > 1 { 2 } else { 1 }) as i64 { for n in -45..=45i64 { for m in 2..=12 * (if crate::scale() > 1 { 2 } else { 1 }) as i64 {
            let x = Rational64::new(n, d);
            let got = match guard(|| quizx::phase::utils::limit_denominator(x, m)) { Ok(g) => g, Err(e) => { cb(&|| format!("limit_denominator({}/{}, {})", n, d, m), Err(e)); continue; } };
            let (xn, xd) = (*x.numer() as i128, *x.denom() as i128);
            let mut best: Option<((i128, i128), i128, (i128, i128))> = None;   // ((dist_num, dist_den), den, frac)
            for q in 1..=m as i128 {
                let fl = (xn * q).div_euclid(xd);
                for p in [fl, fl + 1] {
                    let g = gcd(p, q); let (rp, rq) = (p / g.max(1), q / g.max(1));
                    let dn = (xn * rq - rp * xd).abs(); let dd = xd * rq;
                    let better = match &best { None => true, Some(((bn, bd), bden, _)) => { let l = dn * bd; let r = bn * dd; l < r || (l == r && rq < *bden) } };
                    if better { best = Some(((dn, dd), rq, (rp, rq))); }
                }
            }
            let want = best.unwrap().2;
            let g = (*got.numer() as i128, *got.denom() as i128);
            let gg = gcd(g.0, g.1).max(1);
            let ok = (g.0 / gg, g.1 / gg) == want && g.1 > 0 && g.1 <= m as i128;
            cb(&|| format!("limit_denominator({}/{}, {})", n, d, m), if ok { Ok(()) } else { Err(format!("got {}/{}, the closest fraction with denominator <= {} (ties to the smaller denominator, as Python) is {}/{}", g.0, g.1, m, want.0, want.1)) });
        } } }
    });
    cx.check("phase_limit_denominator_canonical", |cb| {
        // the METHOD on Phase (the check above exercises the free function): the result is again a canonical phase in (-1, 1], it is the
        // class mod 2 of the free function's answer, its denominator respects the bound, and a phase within the bound is returned unchanged
        for d in 1..=40i64 { for n in -2 * d..=2 * d { for m in 2..=12i64 {   // the bound must exceed 1 (documented panic otherwise)
            let p = Phase::new(Rational64::new(n, d));
            let got = match guard(|| p.limit_denominator(m)) { Ok(g) => g, Err(e) => { cb(&|| format!("Phase({}/{}).limit_denominator({})", n, d, m), Err(e)); continue; } };
            let (gn, gd) = pr(got);
            let (pn, pd) = pr(p);
            let free = quizx::phase::utils::limit_denominator(Rational64::new(pn as i64, pd as i64), m);
            let want = canon(*free.numer() as i128, *free.denom() as i128);
            let res = if !(gd > 0 && -gd < gn && gn <= gd) { Err(format!("representative {}/{} is outside (-1, 1]", gn, gd)) }
                else if gcd(gn, gd).max(1) != 1 { Err(format!("representative {}/{} is not reduced", gn, gd)) }
                else if gd > m as i128 { Err(format!("denominator {} exceeds the bound {}", gd, m)) }
                else if (gn, gd) != want { Err(format!("got {}/{}, the class of the closest fraction is {}/{}", gn, gd, want.0, want.1)) }
                else if pd <= m as i128 && (gn, gd) != (pn, pd) { Err(format!("a phase within the bound was changed to {}/{}", gn, gd)) }
                else if got != Phase::new(Rational64::new(gn as i64, gd as i64)) { Err("the result differs from the phase rebuilt from its own rational".to_string()) }
                else { Ok(()) };
            cb(&|| format!("Phase({}/{}).limit_denominator({})", n, d, m), res);
        } } }
    });
    cx.check("float_round_trip", |cb| {
        // floats of moderate size: from_f64 lands on the class of f modulo 2 (representative in (-1, 1]) to within rounding, to_f64 reads it back,
        // the From impls agree with the methods, and a canonical phase survives to_f64 -> from_f64 to within rounding
        let wrap = |f: f64| { let mut r = f % 2.0; if r > 1.0 { r -= 2.0; } if r <= -1.0 { r += 2.0; } r };
        let near = |a: f64, b: f64| (a - b).abs() < 1e-9 || (a - b).abs() > 2.0 - 1e-9;     // -1 and 1 are the same class
        let mut fs: Vec<f64> = vec![0.0, 0.5, -0.5, 1.0, -1.0, 0.25, 0.75, -0.75, 1.5, -1.5, 2.0, 3.25, -7.125, 0.1, -0.3, 1.0 / 3.0, 2.0 / 3.0, 0.999, -0.999, 123.456, -98.7654321, 1e-3, 1e-6];
        let mut r = crate::c04::Rng(0xc16_f10a7);
        for _ in 0..300 * crate::scale() { let n = r.below(4001) as i64 - 2000; let d = 1 + r.below(64) as i64; fs.push(n as f64 / d as f64); }
        for f in fs {
            let res = (|| {
                let p = guard(|| Phase::from_f64(f))?;
                let (n, d) = pr(p);
                if !(d > 0 && -d < n && n <= d) { return Err(format!("from_f64 gives the representative {}/{} outside (-1, 1]", n, d)); }
                let back = guard(|| p.to_f64())?;
                if !near(back, wrap(f)) { return Err(format!("to_f64(from_f64(f)) = {} but f is {} modulo 2", back, wrap(f))); }
                let p2: Phase = guard(|| f.into())?; if p2 != p { return Err("From<f64> differs from from_f64".to_string()); }
                let b2: f64 = guard(|| p.into())?; if b2 != back { return Err("From<Phase> for f64 differs from to_f64".to_string()); }
                if (n as f64 / d as f64 - back).abs() > 1e-12 { return Err(format!("to_f64 = {} but the stored rational is {}/{}", back, n, d)); }
                let again = guard(|| Phase::from_f64(back))?;
                if !near(guard(|| again.to_f64())?, back) { return Err("a canonical phase does not survive to_f64 -> from_f64".to_string()); }
                Ok(())
            })();
            cb(&|| format!("f = {:?}", f), res);
        }
    });
}
