//! C10: Parity / Expr algebra over 4 variables, every assignment.
use crate::Ctx;
use quizx::params::{Expr, Parity};
use num::Zero;
use quizx::circuit::Circuit;
use quizx::graph::GraphLike;
use quizx::tensor::ToTensor;
use quizx::vec_graph::Graph;
use crate::guard;

fn all_parities() -> Vec<Parity> {
    let mut v = vec![];
    for mask in 0u32..16 { for flag in [false, true] {
        let vars: Vec<u32> = (0..4).filter(|i| mask >> i & 1 == 1).collect();
        v.push(Parity::new(vars, flag));
    } }
    v
}
fn eval(p: &Parity, sigma: u32) -> bool {
    // flag is recovered from the public API: p + p.negated() ... simpler: a parity is one() iff no variables and flag
    let mut b = flag_of(p);
    for x in p.iter() { b ^= sigma >> x & 1 == 1; }
    b
}
fn flag_of(p: &Parity) -> bool {
    // strip the variables by adding the flag-free parity with the same variables
    let vars: Vec<u32> = p.iter().collect();
    let q = Parity::new(vars, false);
    let r = p + &q;
    !r.is_zero()    // r has no variables; it is zero() iff the flag was false
}
fn eval_expr(e: &Expr, sigma: u32) -> bool { e.iter().all(|p| eval(p, sigma)) }
fn sorted_strict(p: &Parity) -> bool { let v: Vec<u32> = p.iter().collect(); v.windows(2).all(|w| w[0] < w[1]) }

pub fn run(cx: &mut Ctx) {
    let ps = all_parities();
    cx.check("parity_add_is_xor", |cb| {
        for a in &ps { for b in &ps {
            let r = a + b;
            let ok = sorted_strict(&r) && (0..16).all(|s| eval(&r, s) == (eval(a, s) ^ eval(b, s)));
            cb(&|| format!("{:?} + {:?}", a, b), if ok { Ok(()) } else { Err(format!("got {:?}: not the XOR under every assignment / not strictly sorted", r)) });
            let r2 = a.clone() + b.clone();
            cb(&|| format!("owned {:?} + {:?}", a, b), if r2 == r { Ok(()) } else { Err(format!("owned + gives {:?}, reference + gives {:?}", r2, r)) });
        } }
    });
    cx.check("parity_constants", |cb| {
        for a in &ps {
            let n = a.negated();
            cb(&|| format!("negated({:?})", a), if (0..16).all(|s| eval(&n, s) != eval(a, s)) && sorted_strict(&n) { Ok(()) } else { Err(format!("got {:?}", n)) });
            let want = (0..16).all(|s| eval(a, s));
            cb(&|| format!("is_one({:?})", a), if a.is_one() == want { Ok(()) } else { Err(format!("is_one = {}, but the parity is {}constant 1", a.is_one(), if want { "" } else { "not " })) });
        }
        let one = Parity::one();
        cb(&|| "one()".into(), if (0..16).all(|s| eval(&one, s)) { Ok(()) } else { Err("one() is not constant 1".into()) });
        let z = Parity::zero();
        cb(&|| "zero()".into(), if (0..16).all(|s| !eval(&z, s)) && z.is_zero() { Ok(()) } else { Err("zero() is not constant 0".into()) });
        for v in 0..4 { let p = Parity::single(v); cb(&|| format!("single({})", v), if (0..16).all(|s| eval(&p, s) == (s >> v & 1 == 1)) { Ok(()) } else { Err(format!("got {:?}", p)) }); }
    });
    cx.check("expr_quadratic_is_and", |cb| {
        for a in &ps { for b in &ps {
            let e = Expr::quadratic(a.clone(), b.clone());
            let ok = (0..16).all(|s| eval_expr(&e, s) == (eval(a, s) && eval(b, s)));
            cb(&|| format!("quadratic({:?}, {:?})", a, b), if ok { Ok(()) } else { Err(format!("got {:?}: not the conjunction under every assignment", e)) });
        }
            let l = Expr::linear(a.clone());
            cb(&|| format!("linear({:?})", a), if (0..16).all(|s| eval_expr(&l, s) == eval(a, s)) && l.is_linear() { Ok(()) } else { Err(format!("got {:?}", l)) });
        }
    });
    // Translation of measurements (bounded, RELATIVE oracle: the library's own tensor evaluator and its translation of
    // the variable-free `post_sel` gate).  For every outcome assignment, the measured circuit with the assignment
    // substituted must be the circuit in which the k-th measurement is replaced by X^{b_k} followed by post-selection.
    cx.check("measure_translation_projects", |cb| {
        let n = 3usize;
        let alphabet: Vec<(&str, Vec<usize>)> = vec![("h", vec![0]), ("h", vec![1]), ("x", vec![1]), ("x", vec![2]), ("cx", vec![0, 1]), ("cx", vec![1, 2]), ("cz", vec![0, 2]), ("t", vec![1]), ("t", vec![2]),
                                                      ("swap", vec![0, 1]), ("swap", vec![1, 2]),
                                                      ("measure_d", vec![0]), ("measure_d", vec![1]), ("measure_d", vec![2])];
        let mut seqs: Vec<Vec<usize>> = vec![vec![]];
        for _ in 0..3 { let mut nxt = vec![]; for s in &seqs { for a in 0..alphabet.len() { let mut t = s.clone(); t.push(a); nxt.push(t); } } seqs.extend(nxt); seqs.sort(); seqs.dedup(); }
        for sq in seqs.iter().filter(|s| s.iter().any(|&a| alphabet[a].0 == "measure_d")) {
            // a qubit is measured at most once, and never used afterwards except by the documented "ignored" rule
            let meas: Vec<usize> = sq.iter().filter(|&&a| alphabet[a].0 == "measure_d").map(|&a| alphabet[a].1[0]).collect();
            if (1..meas.len()).any(|i| meas[..i].contains(&meas[i])) { continue; }
            let v = guard(|| {
                let mut c = Circuit::new(n);
                for &a in sq { c.add_gate(alphabet[a].0, alphabet[a].1.clone()); }
                let g: Graph = c.to_graph();
                for asg in 0..1u32 << meas.len() {
                    // substitute: add pi where the parity is odd, multiply in the factors whose condition holds
                    let mut h = g.clone();
                    for v in h.vertex_vec() { let p = h.vars(v); if eval(&p, asg) { h.add_to_phase(v, num::Rational64::new(1, 1)); } h.set_vars(v, Parity::zero()); }
                    for (e, f) in g.scalar_factors() { if eval_expr(e, asg) { *h.scalar_mut() *= *f; } }
                    let mut d = Circuit::new(n);
                    let mut k = 0;
                    for &a in sq { let (name, qs) = &alphabet[a]; if *name == "measure_d" { if asg >> k & 1 == 1 { d.add_gate("x", qs.clone()); } d.add_gate("post_sel", qs.clone()); k += 1; } else { d.add_gate(name, qs.clone()); } }
                    let want: Graph = d.to_graph();
                    let (t1, t2) = (h.to_tensorf(), want.to_tensorf());
                    if t1.shape() != t2.shape() || t1.iter().zip(t2.iter()).any(|(x, y)| (x - y).norm() > 1e-9) { return Err(format!("outcome assignment {:#b}: the measured circuit denotes a different map than the projected circuit", asg)); }
                }
                Ok(())
            }).and_then(|r| r);
            cb(&|| format!("{:?}", sq.iter().map(|&a| (alphabet[a].0, alphabet[a].1.clone())).collect::<Vec<_>>()), v);
        }
    });

    rules_under_assignments(cx);
}

/// (also run for C04 / C01: a rule that moves the wrong parity changes the map under some assignment although the parity-blind tensor stays equal)
pub fn rules_under_assignments(cx: &mut Ctx) {
    // every primitive rule and simplifier on small diagrams whose spiders carry parities of boolean variables: for EVERY assignment, the
    // instantiated diagram (pi added where the parity is odd, scalar factors multiplied in where their condition holds) keeps its exact
    // tensor — relative to the library's tensor evaluator
    cx.check("rules_sound_under_every_assignment", |cb| {
        use crate::c04::{describe, diagram, star, Rng};
        use quizx::basic_rules::*;
        use quizx::simplify::*;
        let seed: u64 = std::env::var("VERIF_SEED").ok().and_then(|s| s.parse().ok()).unwrap_or(0);
        let mut r = Rng(0xc10_5eed ^ seed.wrapping_mul(0x9e3779b97f4a7c15));
        let n = 90 * crate::scale();
        fn eval_expr(e: &Expr, sigma: u32) -> bool { e.iter().all(|p| eval(p, sigma)) }
        fn instantiate(g: &Graph, sigma: u32) -> Graph {
            let mut h = g.clone();
            for v in g.vertices() { if eval(&g.vars(v), sigma) { h.add_to_phase(v, num::Rational64::new(1, 1)); } h.set_vars(v, Parity::zero()); }
            let mut s = *g.scalar();
            for (e, f) in g.scalar_factors() { if eval_expr(e, sigma) { s *= *f; } }
            *h.scalar_mut() = s;
            h
        }
        type R1 = (&'static str, fn(&mut Graph, usize) -> bool);
        type R2 = (&'static str, fn(&mut Graph, usize, usize) -> bool);
        type S0 = (&'static str, fn(&mut Graph) -> bool);
        let r1: Vec<R1> = vec![("pi_copy", |g, v| pi_copy(g, v)), ("remove_id", |g, v| remove_id(g, v)), ("color_change", |g, v| color_change(g, v)), ("local_comp", |g, v| local_comp(g, v)), ("remove_single", |g, v| remove_single(g, v))];
        let r2: Vec<R2> = vec![("spider_fusion", |g, a, b| spider_fusion(g, a, b)), ("pivot", |g, a, b| pivot(g, a, b)), ("gen_pivot", |g, a, b| gen_pivot(g, a, b)), ("boundary_pivot", |g, a, b| boundary_pivot(g, a, b)),
            ("boundary_local_comp", |g, a, b| boundary_local_comp(g, a, b)), ("gadget_fusion", |g, a, b| gadget_fusion(g, a, b)), ("remove_pair", |g, a, b| remove_pair(g, a, b)), ("remove_duplicate", |g, a, b| remove_duplicate(g, a, b))];
        let s0: Vec<S0> = vec![("clifford_simp", |g| clifford_simp(g)), ("full_simp", |g| full_simp(g)), ("flow_simp", |g| flow_simp(g))];
        for k in 0..n {
            let mut g = match k % 3 { 0 => diagram(&mut r, false), 1 => diagram(&mut r, true), _ => star(&mut r) };
            // parities over 3 variables on about half of the spiders
            let vs: Vec<usize> = g.vertices().collect();
            for &v in &vs { if g.vertex_type(v) != quizx::graph::VType::B && r.below(2) == 0 {
                let mask = 1 + r.below(7) as u32;
                g.set_vars(v, Parity::new((0..3u32).filter(|i| mask >> i & 1 == 1).collect::<Vec<u32>>(), false));
            } }
            let before: Vec<_> = (0..8u32).map(|sg| guard(|| instantiate(&g, sg).to_tensor4())).collect();
            let mut compare = |name: String, h: &Graph, cb: &mut dyn FnMut(&dyn Fn() -> String, Result<(), String>)| {
                let mut res = Ok(());
                for sg in 0..8u32 {
                    let after = guard(|| instantiate(h, sg).to_tensor4());
                    match (&before[sg as usize], &after) {
                        (Ok(a), Ok(b)) => if a != b { res = Err(format!("under the assignment {:03b} the instantiated tensor changed", sg)); break; },
                        (_, Err(e)) => { res = Err(format!("evaluation after the rewrite: {}", e)); break; }
                        _ => {}
                    }
                }
                let vars: Vec<String> = g.vertices().filter(|&v| !g.vars(v).is_empty()).map(|v| format!("{}:{:?}", v, g.vars(v))).collect();
                cb(&|| format!("{} on {} with parities [{}]", name, describe(&g), vars.join(" ")), res);
            };
            let top = g.vindex();
            for (name, f) in &r1 { for v in 0..top { let mut h = g.clone(); match guard(|| f(&mut h, v)) { Ok(true) => compare(format!("{} at {}", name, v), &h, cb), Ok(false) => {}, Err(e) => cb(&|| format!("{} at {} on {}", name, v, describe(&g)), Err(e)) } } }
            for (name, f) in &r2 { for a in 0..top { for b in 0..top { let mut h = g.clone(); match guard(|| f(&mut h, a, b)) { Ok(true) => compare(format!("{} at ({}, {})", name, a, b), &h, cb), Ok(false) => {}, Err(e) => cb(&|| format!("{} at ({}, {}) on {}", name, a, b, describe(&g)), Err(e)) } } } }
            for (name, f) in &s0 { let mut h = g.clone(); match guard(|| f(&mut h)) { Ok(_) => compare(name.to_string(), &h, cb), Err(e) => cb(&|| format!("{} on {}", name, describe(&g)), Err(e)) } }
        }
    });
}
