//! C10: Parity / Expr algebra over 4 variables, every assignment.
use crate::Ctx;
use quizx::params::{Expr, Parity};
use num::Zero;

fn all_parities() -> Vec<Parity> {
    let mut v = vec![];
    for mask in 0u32..16 { for flag in [false, true] {
        let vars: Vec<u32> = (0..4).filter(|i| mask >> i & 1 == 1).collect();
        v.push(Parity::new(vars, flag));
    } }
    v
}
fn eval(p: &Parity, sigma: u32) -> bool {
    // flag is recovered from the public API: p + p.negated() ... simpler: a parity is one() iff no variables and flag
    let mut b = flag_of(p);
    for x in p.iter() { b ^= sigma >> x & 1 == 1; }
    b
}
fn flag_of(p: &Parity) -> bool {
    // strip the variables by adding the flag-free parity with the same variables
    let vars: Vec<u32> = p.iter().collect();
    let q = Parity::new(vars, false);
    let r = p + &q;
    !r.is_zero()    // r has no variables; it is zero() iff the flag was false
}
fn eval_expr(e: &Expr, sigma: u32) -> bool { e.iter().all(|p| eval(p, sigma)) }
fn sorted_strict(p: &Parity) -> bool { let v: Vec<u32> = p.iter().collect(); v.windows(2).all(|w| w[0] < w[1]) }

pub fn run(cx: &mut Ctx) {
    let ps = all_parities();
    cx.check("parity_add_is_xor", |cb| {
        for a in &ps { for b in &ps {
            let r = a + b;
            let ok = sorted_strict(&r) && (0..16).all(|s| eval(&r, s) == (eval(a, s) ^ eval(b, s)));
            cb(&|| format!("{:?} + {:?}", a, b), if ok { Ok(()) } else { Err(format!("got {:?}: not the XOR under every assignment / not strictly sorted", r)) });
            let r2 = a.clone() + b.clone();
            cb(&|| format!("owned {:?} + {:?}", a, b), if r2 == r { Ok(()) } else { Err(format!("owned + gives {:?}, reference + gives {:?}", r2, r)) });
        } }
    });
    cx.check("parity_constants", |cb| {
        for a in &ps {
            let n = a.negated();
            cb(&|| format!("negated({:?})", a), if (0..16).all(|s| eval(&n, s) != eval(a, s)) && sorted_strict(&n) { Ok(()) } else { Err(format!("got {:?}", n)) });
            let want = (0..16).all(|s| eval(a, s));
            cb(&|| format!("is_one({:?})", a), if a.is_one() == want { Ok(()) } else { Err(format!("is_one = {}, but the parity is {}constant 1", a.is_one(), if want { "" } else { "not " })) });
        }
        let one = Parity::one();
        cb(&|| "one()".into(), if (0..16).all(|s| eval(&one, s)) { Ok(()) } else { Err("one() is not constant 1".into()) });
        let z = Parity::zero();
        cb(&|| "zero()".into(), if (0..16).all(|s| !eval(&z, s)) && z.is_zero() { Ok(()) } else { Err("zero() is not constant 0".into()) });
        for v in 0..4 { let p = Parity::single(v); cb(&|| format!("single({})", v), if (0..16).all(|s| eval(&p, s) == (s >> v & 1 == 1)) { Ok(()) } else { Err(format!("got {:?}", p)) }); }
    });
    cx.check("expr_quadratic_is_and", |cb| {
        for a in &ps { for b in &ps {
            let e = Expr::quadratic(a.clone(), b.clone());
            let ok = (0..16).all(|s| eval_expr(&e, s) == (eval(a, s) && eval(b, s)));
            cb(&|| format!("quadratic({:?}, {:?})", a, b), if ok { Ok(()) } else { Err(format!("got {:?}: not the conjunction under every assignment", e)) });
        }
            let l = Expr::linear(a.clone());
            cb(&|| format!("linear({:?})", a), if (0..16).all(|s| eval_expr(&l, s) == eval(a, s)) && l.is_linear() { Ok(()) } else { Err(format!("got {:?}", l)) });
        }
    });
}
