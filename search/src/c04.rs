//! C04: every primitive rewrite rule on small pseudo-random diagrams and EVERY argument tuple (equal vertices, boundary vertices and
//! vertices that do not exist included): the matcher does not panic; the checked rule answers what the matcher answers; a rejected
//! call leaves the graph equal to what it was; an accepted call does not panic and keeps the exact tensor (entries in Z[omega]/2^k),
//! RELATIVE to the library's own tensor evaluator.
use crate::{guard, Ctx};
use num::Rational64;
use quizx::basic_rules::*;
use quizx::graph::{EType, GraphLike, VType, V};
use quizx::tensor::ToTensor;
use quizx::vec_graph::Graph;

pub struct Rng(pub u64);
impl Rng {
    pub fn next(&mut self) -> u64 { self.0 = self.0.wrapping_mul(6364136223846793005).wrapping_add(1442695040888963407); self.0 >> 33 }
    pub fn below(&mut self, n: u64) -> u64 { self.next() % n }
}

/// a small diagram; `graph_like`: only Z spiders joined by Hadamard wires (what local complementation and pivoting want)
pub fn diagram(r: &mut Rng, graph_like: bool) -> Graph {
    let mut g = Graph::new();
    let ns = 1 + r.below(4) as usize;
    let phases: [(i64, i64); 8] = [(0, 1), (1, 1), (1, 2), (-1, 2), (1, 4), (3, 4), (0, 1), (1, 1)];
    let mut sp = vec![];
    for _ in 0..ns {
        let ty = if graph_like || r.below(2) == 0 { VType::Z } else { VType::X };
        let (n, d) = phases[r.below(if graph_like { 8 } else { 6 }) as usize];
        let v = g.add_vertex_with_phase(ty, Rational64::new(n, d));
        sp.push(v);
    }
    for i in 0..ns { for j in i + 1..ns {
        if r.below(100) < 55 { g.add_edge_with_type(sp[i], sp[j], if graph_like || r.below(2) == 0 { EType::H } else { EType::N }); }
    } }
    // phase gadgets now and then (a degree-1 spider hanging off a phase-free hub)
    if graph_like && r.below(3) == 0 {
        for _ in 0..1 + r.below(2) {
            let hub = g.add_vertex(VType::Z); let leaf = g.add_vertex_with_phase(VType::Z, Rational64::new(1, 4));
            g.add_edge_with_type(hub, leaf, EType::H);
            for &s in &sp { if r.below(2) == 0 { g.add_edge_with_type(hub, s, EType::H); } }
        }
    }
    let (ni, no) = (r.below(3) as usize, r.below(3) as usize);
    let (mut ins, mut outs) = (vec![], vec![]);
    for k in 0..ni + no {
        let b = g.add_vertex(VType::B);
        let s = sp[r.below(ns as u64) as usize];
        g.add_edge_with_type(b, s, if r.below(3) == 0 { EType::H } else { EType::N });
        if k < ni { ins.push(b) } else { outs.push(b) }
    }
    g.set_inputs(ins); g.set_outputs(outs);
    g
}

/// a star: one centre with a phase the matchers care about, 1-4 spiders around it of either colour on either kind of wire, now and then
/// joined among themselves, each possibly carrying a boundary — the near-misses of the side conditions
pub fn star(r: &mut Rng) -> Graph {
    let mut g = Graph::new();
    let phases: [(i64, i64); 6] = [(0, 1), (1, 1), (1, 2), (-1, 2), (1, 4), (0, 1)];
    let (n, d) = phases[r.below(6) as usize];
    let c = g.add_vertex_with_phase(if r.below(4) == 0 { VType::X } else { VType::Z }, Rational64::new(n, d));
    let k = 1 + r.below(4) as usize;
    let mut around = vec![];
    let (mut ins, mut outs) = (vec![], vec![]);
    // mode 0: mostly graph-like; 1: anything; 2: every neighbour is a Z spider behind a Hadamard wire OR its colour-changed twin
    // (an X spider behind a plain wire) — locally equivalent, but not for rules that join the neighbours among themselves
    let mode = r.below(3);
    for _ in 0..k {
        let odd = r.below(if mode == 0 { 5 } else { 2 }) == 0;
        let (n, d) = phases[r.below(6) as usize];
        let w = g.add_vertex_with_phase(if odd { VType::X } else { VType::Z }, Rational64::new(n, d));
        let odd_e = if mode == 2 { odd } else { r.below(if mode == 0 { 5 } else { 2 }) == 0 };
        g.add_edge_with_type(c, w, if odd_e { EType::N } else { EType::H });
        if r.below(2) == 0 { let b = g.add_vertex(VType::B); g.add_edge_with_type(w, b, if r.below(4) == 0 { EType::H } else { EType::N }); if r.below(2) == 0 { ins.push(b) } else { outs.push(b) } }
        around.push(w);
    }
    for i in 0..k { for j in i + 1..k { if r.below(3) == 0 { g.add_edge_with_type(around[i], around[j], if r.below(4) == 0 { EType::N } else { EType::H }); } } }
    if r.below(3) == 0 { let b = g.add_vertex(VType::B); g.add_edge_with_type(c, b, if r.below(3) == 0 { EType::H } else { EType::N }); outs.push(b); }
    g.set_inputs(ins); g.set_outputs(outs);
    g
}

/// gadget farm: 2-3 target spiders (each on a boundary), 2-5 phase gadgets whose hubs attach to target subsets drawn from a small pool (so
/// that several gadgets share a target set), now and then a hub that is itself a target of other hubs
pub fn gadget_farm(r: &mut Rng) -> Graph {
    let mut g = Graph::new();
    let nt = 2 + r.below(2) as usize;
    let (mut ins, mut outs) = (vec![], vec![]);
    let targets: Vec<V> = (0..nt).map(|k| { let t = g.add_vertex_with_phase(VType::Z, Rational64::new(r.below(2) as i64, 1)); let b = g.add_vertex(VType::B); g.add_edge_with_type(t, b, EType::N); if k % 2 == 0 { ins.push(b) } else { outs.push(b) } t }).collect();
    let pool: Vec<u32> = (0..2).map(|_| 1 + r.below((1 << nt) - 1) as u32).collect();
    let mut hubs = vec![];
    for _ in 0..2 + r.below(4) {
        let hub = g.add_vertex(VType::Z);
        let leaf = g.add_vertex_with_phase(VType::Z, Rational64::new([1, 3, 5, 7, 2][r.below(5) as usize], 4));
        g.add_edge_with_type(hub, leaf, EType::H);
        let mask = pool[r.below(2) as usize];
        for (k, &t) in targets.iter().enumerate() { if mask >> k & 1 == 1 { g.add_edge_with_type(hub, t, EType::H); } }
        hubs.push(hub);
    }
    // hubs of hubs
    if r.below(3) == 0 && hubs.len() >= 2 {
        for _ in 0..2 { let hub = g.add_vertex(VType::Z); let leaf = g.add_vertex_with_phase(VType::Z, Rational64::new(1, 4)); g.add_edge_with_type(hub, leaf, EType::H); for &h in hubs.iter().take(2) { g.add_edge_with_type(hub, h, EType::H); } }
    }
    g.set_inputs(ins); g.set_outputs(outs);
    g
}
/// two phase gadgets on the same 0-2 targets with every pair of HUB phases in {0, pi, pi/2} (the farm above only builds hubs with phase 0):
/// the fusion rule is sound only for phase-free hubs
pub fn gadget_pairs() -> Vec<Graph> {
    let mut out = vec![];
    let hp = [Rational64::new(0, 1), Rational64::new(1, 1), Rational64::new(1, 2)];
    for nt in 0..=2usize { for &h0 in &hp { for &h1 in &hp {
        let mut g = Graph::new();
        let (mut ins, mut outs) = (vec![], vec![]);
        let targets: Vec<V> = (0..nt).map(|k| { let t = g.add_vertex(VType::Z); let b = g.add_vertex(VType::B); g.add_edge_with_type(t, b, EType::N); if k % 2 == 0 { ins.push(b) } else { outs.push(b) } t }).collect();
        for (hub_phase, leaf_phase) in [(h0, Rational64::new(1, 4)), (h1, Rational64::new(1, 2))] {
            let hub = g.add_vertex_with_phase(VType::Z, hub_phase);
            let leaf = g.add_vertex_with_phase(VType::Z, leaf_phase);
            g.add_edge_with_type(hub, leaf, EType::H);
            for &t in &targets { g.add_edge_with_type(hub, t, EType::H); }
        }
        g.set_inputs(ins); g.set_outputs(outs);
        out.push(g);
    } } }
    out
}
/// every one- and two-spider scalar diagram over the phases k pi/4: colours, wire type, all 8 x 8 phase pairs
pub fn scalar_pieces() -> Vec<Graph> {
    let mut out = vec![];
    let tys = [VType::Z, VType::X];
    for &t0 in &tys { for p0 in 0..8i64 {
        let mut g = Graph::new(); g.add_vertex_with_phase(t0, Rational64::new(p0, 4)); out.push(g);
        for &t1 in &tys { for et in [EType::N, EType::H] { for p1 in 0..8i64 {
            let mut g = Graph::new();
            let a = g.add_vertex_with_phase(t0, Rational64::new(p0, 4)); let b = g.add_vertex_with_phase(t1, Rational64::new(p1, 4));
            g.add_edge_with_type(a, b, et);
            out.push(g);
        } } }
    } }
    out
}

pub fn same_map(a: &Graph, b: &Graph) -> Result<(), String> {
    let (ta, tb) = (guard(|| a.to_tensor4())?, guard(|| b.to_tensor4())?);
    if ta == tb { Ok(()) } else { Err(format!("the exact tensor changed: {:?} became {:?}", ta.iter().take(8).collect::<Vec<_>>(), tb.iter().take(8).collect::<Vec<_>>())) }
}

type M1 = (&'static str, fn(&Graph, V) -> bool, fn(&mut Graph, V) -> bool, fn(&mut Graph, V));
type M2 = (&'static str, fn(&Graph, V, V) -> bool, fn(&mut Graph, V, V) -> bool, fn(&mut Graph, V, V));

pub fn describe(g: &Graph) -> String {
    let vs: Vec<String> = g.vertices().map(|v| format!("{}:{:?}({})", v, g.vertex_type(v), g.phase(v))).collect();
    let es: Vec<String> = g.edges().map(|(s, t, e)| format!("{}-{}{}", s, t, if e == EType::H { "h" } else { "" })).collect();
    format!("vertices [{}] edges [{}] inputs {:?} outputs {:?}", vs.join(" "), es.join(" "), g.inputs(), g.outputs())
}

pub fn run(cx: &mut Ctx) {
    let seed: u64 = std::env::var("VERIF_SEED").ok().and_then(|s| s.parse().ok()).unwrap_or(0);
    let ndiag = 200 * crate::scale();
    let mut r = Rng(0x5eed_c04 ^ seed.wrapping_mul(0x9e3779b97f4a7c15));
    let mut diagrams: Vec<Graph> = (0..ndiag).map(|k| match k % 4 { 2 => star(&mut r), 3 => gadget_farm(&mut r), _ => diagram(&mut r, k % 4 == 1) }).collect();
    diagrams.extend(scalar_pieces());
    diagrams.extend(gadget_pairs());
    let rules1: Vec<M1> = vec![
        ("pi_copy", |g, v| check_pi_copy(g, v), |g, v| pi_copy(g, v), |g, v| pi_copy_unchecked(g, v)),
        ("remove_id", |g, v| check_remove_id(g, v), |g, v| remove_id(g, v), |g, v| remove_id_unchecked(g, v)),
        ("color_change", |g, v| check_color_change(g, v), |g, v| color_change(g, v), |g, v| color_change_unchecked(g, v)),
        ("local_comp", |g, v| check_local_comp(g, v), |g, v| local_comp(g, v), |g, v| local_comp_unchecked(g, v)),
        ("remove_single", |g, v| check_remove_single(g, v), |g, v| remove_single(g, v), |g, v| remove_single_unchecked(g, v)),
    ];
    let rules2: Vec<M2> = vec![
        ("spider_fusion", |g, a, b| check_spider_fusion(g, a, b), |g, a, b| spider_fusion(g, a, b), |g, a, b| spider_fusion_unchecked(g, a, b)),
        ("pivot", |g, a, b| check_pivot(g, a, b), |g, a, b| pivot(g, a, b), |g, a, b| pivot_unchecked(g, a, b)),
        ("gen_pivot", |g, a, b| check_gen_pivot(g, a, b), |g, a, b| gen_pivot(g, a, b), |g, a, b| gen_pivot_unchecked(g, a, b)),
        ("boundary_pivot", |g, a, b| check_boundary_pivot(g, a, b), |g, a, b| boundary_pivot(g, a, b), |g, a, b| gen_pivot_unchecked(g, a, b)),
        ("h_boundary_pivot", |g, a, b| check_h_boundary_pivot(g, a, b), |g, a, b| h_boundary_pivot(g, a, b), |g, a, b| gen_pivot_unchecked(g, a, b)),
        ("boundary_local_comp", |g, a, b| check_boundary_local_comp(g, a, b), |g, a, b| boundary_local_comp(g, a, b), |g, a, b| boundary_local_comp_unchecked(g, a, b)),
        ("gadget_fusion", |g, a, b| check_gadget_fusion(g, a, b), |g, a, b| gadget_fusion(g, a, b), |g, a, b| gadget_fusion_unchecked(g, a, b)),
        ("remove_pair", |g, a, b| check_remove_pair(g, a, b), |g, a, b| remove_pair(g, a, b), |g, a, b| remove_pair_unchecked(g, a, b)),
        ("remove_duplicate", |g, a, b| check_remove_duplicate(g, a, b), |g, a, b| remove_duplicate(g, a, b), |g, a, b| remove_duplicate_unchecked(g, a, b)),
    ];
    for (name, check, rule, unchecked) in rules1 {
        cx.check(&format!("rule_{}", name), |cb| {
            for g in &diagrams {
                let top = g.vindex() + 1;      // one index past the end: a vertex that does not exist
                for v in 0..=top {
                    let res = (|| {
                        let accepted = guard(|| check(g, v)).map_err(|e| format!("matcher: {}", e))?;
                        let mut h = g.clone();
                        let ans = guard(|| rule(&mut h, v)).map_err(|e| format!("checked rule: {}", e))?;
                        if ans != accepted { return Err(format!("checked rule answered {} but the matcher answers {}", ans, accepted)); }
                        if !accepted { return if h == *g { Ok(()) } else { Err("rejected call changed the graph".to_string()) }; }
                        same_map(g, &h)?;
                        let mut k = g.clone();
                        guard(|| unchecked(&mut k, v)).map_err(|e| format!("unchecked rule after an accepting matcher: {}", e))?;
                        same_map(g, &k)
                    })();
                    cb(&|| format!("{} at vertex {} of {}", name, v, describe(g)), res);
                }
            }
        });
    }
    for (name, check, rule, unchecked) in rules2 {
        cx.check(&format!("rule_{}", name), |cb| {
            for g in &diagrams {
                let top = g.vindex() + 1;
                for v0 in 0..=top { for v1 in 0..=top {
                    let res = (|| {
                        let accepted = guard(|| check(g, v0, v1)).map_err(|e| format!("matcher: {}", e))?;
                        let mut h = g.clone();
                        let ans = guard(|| rule(&mut h, v0, v1)).map_err(|e| format!("checked rule: {}", e))?;
                        if ans != accepted { return Err(format!("checked rule answered {} but the matcher answers {}", ans, accepted)); }
                        if !accepted { return if h == *g { Ok(()) } else { Err("rejected call changed the graph".to_string()) }; }
                        same_map(g, &h)?;
                        let mut k = g.clone();
                        guard(|| unchecked(&mut k, v0, v1)).map_err(|e| format!("unchecked rule after an accepting matcher: {}", e))?;
                        same_map(g, &k)
                    })();
                    cb(&|| format!("{} at vertices ({}, {}) of {}", name, v0, v1, describe(g)), res);
                } }
            }
        });
    }
}
