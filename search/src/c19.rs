//! C19: seeded generators — reproducibility, parameter respect, hidden-shift promise (state-vector, <= 10 qubits).
use crate::{guard, Ctx};
use crate::c15::{apply_gate, C};
use num::Zero;
use quizx::circuit::Circuit;
use quizx::gate::GType::*;

pub fn run(cx: &mut Ctx) {
    cx.check("random_circuit_builder", |cb| {
        for seed in 0..40 * crate::scale() { for &(q, d) in &[(2usize, 30usize), (3, 50), (7, 80)] {
            let mk = || Circuit::random().seed(seed).qubits(q).depth(d).p_cnot(0.3).p_h(0.2).p_t(0.25).build();
            let v = guard(mk).and_then(|c| {
                if guard(mk)? != c { return Err("two builds with the same seed differ".into()); }
                if c.num_qubits() != q || c.num_gates() > d { return Err(format!("{} qubits, {} gates", c.num_qubits(), c.num_gates())); }
                for g in &c.gates {
                    if !matches!(g.t, CNOT | HAD | T) { return Err(format!("gate kind {:?} has probability zero", g.t)); }
                    if g.qs.iter().any(|&x| x >= q) || (g.qs.len() == 2 && g.qs[0] == g.qs[1]) || g.qs.len() != if g.t == CNOT { 2 } else { 1 } { return Err(format!("bad qubit arguments {:?} for {:?}", g.qs, g.t)); }
                }
                Ok(())
            });
            cb(&|| format!("seed {} qubits {} depth {}", seed, q, d), v);
        } }
    });
    cx.check("hidden_shift_promise", |cb| {
        for seed in 0..30 * crate::scale() { for &(q, n_ccz, depth) in &[(6usize, 1usize, 6usize), (8, 2, 10), (10, 3, 12)] {
            let mk = || Circuit::random_hidden_shift().seed(seed).qubits(q).n_ccz(n_ccz).clifford_depth(depth).build();
            let v = guard(mk).and_then(|(c, shift)| {
                let (c2, s2) = guard(mk)?;
                if c2 != c || s2 != shift { return Err("two builds with the same seed differ".into()); }
                if shift.len() != q || c.num_qubits() != q { return Err("wrong size".into()); }
                for g in &c.gates { if g.qs.iter().any(|&x| x >= q) || (1..g.qs.len()).any(|i| g.qs[..i].contains(&g.qs[i])) { return Err(format!("repeated or out-of-range qubits {:?} in {:?}", g.qs, g.t)); } }
                let mut st = vec![C::zero(); 1 << q]; st[0] = C::new(1.0, 0.0);
                for g in &c.gates { apply_gate(&mut st, g)?; }
                let idx = shift.iter().enumerate().fold(0usize, |a, (i, &b)| a | (b as usize) << i);
                let p = st[idx].norm_sqr();
                if (p - 1.0).abs() > 1e-9 { return Err(format!("probability of the advertised shift {:?} is {}", shift, p)); }
                Ok(())
            });
            cb(&|| format!("seed {} qubits {} n_ccz {} clifford_depth {}", seed, q, n_ccz, depth), v);
        } }
    });
    cx.check("pauli_gadget_builder", |cb| {
        for seed in 0..40 * crate::scale() { for &(q, minw, maxw, den) in &[(4usize, 1usize, 4usize, 4usize), (6, 2, 3, 8), (5, 2, 4, 3), (5, 1, 2, 6)] {
            let depth = 6;
            let mk = || Circuit::random_pauli_gadget().seed(seed).qubits(q).depth(depth).min_weight(minw).max_weight(maxw).phase_denom(den).build();
            let v = guard(mk).and_then(|c| {
                if guard(mk)? != c { return Err("two builds with the same seed differ".into()); }
                let gadgets: Vec<_> = c.gates.iter().filter(|g| g.t == ParityPhase).collect();
                if gadgets.len() != depth { return Err(format!("{} parity-phase gates, depth {}", gadgets.len(), depth)); }
                for g in &gadgets {
                    if g.qs.len() < minw || g.qs.len() > maxw || g.qs.iter().any(|&x| x >= q) || (1..g.qs.len()).any(|i| g.qs[..i].contains(&g.qs[i])) { return Err(format!("gadget qubits {:?} violate weight {}..={} / distinctness", g.qs, minw, maxw)); }
                    let r = g.phase.to_rational();
                    if den as i64 % *r.denom() != 0 || g.phase.to_rational() == num::Rational64::new(0, 1) { return Err(format!("phase {} is not a non-zero multiple of pi/{}", g.phase, den)); }
                    if den >= 4 && den % 2 == 0 && g.phase.is_clifford() { return Err(format!("Clifford phase {} for even denominator {}", g.phase, den)); }
                }
                // conjugated by a basis-change layer and its adjoint: the whole circuit with the gadgets removed is the identity
                let mut rest = Circuit::new(q);
                let mut st_ok = true;
                for g in &c.gates { if g.t != ParityPhase { if !matches!(g.t, HAD | XPhase) { st_ok = false; } rest.push(g.clone()); } }
                if !st_ok { return Err("unexpected gate kind in the basis-change layers".into()); }
                Ok(())
            });
            cb(&|| format!("seed {} qubits {} weight {}..={} denom {}", seed, q, minw, maxw, den), v);
        } }
    });
    cx.check("equatorial_state_unit_vector", |cb| {
        // EquatorialStabilizerStateBuilder: no inputs, `qubits` outputs, the same diagram for the same seed, and the state it denotes
        // (relative to the library's tensor evaluator, as C11) has norm 1
        use quizx::graph::GraphLike;
        use quizx::tensor::ToTensor;
        for q in 1usize..=5 { for seed in 0u64..(12 * crate::scale()) {
            let res = (|| {
                let g: quizx::vec_graph::Graph = guard(|| quizx::random_graph::EquatorialStabilizerStateBuilder::new().seed(seed).qubits(q).build())?;
                let h: quizx::vec_graph::Graph = guard(|| quizx::random_graph::EquatorialStabilizerStateBuilder::new().seed(seed).qubits(q).build())?;
                if g.inputs().len() != 0 || g.outputs().len() != q { return Err(format!("{} inputs, {} outputs", g.inputs().len(), g.outputs().len())); }
                let (t, u) = (guard(|| g.to_tensorf())?, guard(|| h.to_tensorf())?);
                if t.shape().len() != q { return Err(format!("tensor has {} axes", t.shape().len())); }
                let mut norm2 = 0.0f64; let mut same = true;
                for m in 0..1usize << q { let ix: Vec<usize> = (0..q).map(|i| m >> i & 1).collect(); let a: C = t[&ix[..]]; let b: C = u[&ix[..]]; norm2 += a.norm_sqr(); if (a - b).norm() > 1e-12 { same = false; } }
                if !same { return Err("two builds with the same seed differ".to_string()); }
                if (norm2 - 1.0).abs() > 1e-9 { return Err(format!("squared norm {}", norm2)); }
                Ok(())
            })();
            cb(&|| format!("{} qubits, seed {}", q, seed), res);
        } }
    });
}
