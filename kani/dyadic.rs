// Kani contract harnesses for quizx/src/scalar/dyadic.rs (property C07).
// Appended by lib/kunit.py to a scratch copy of that file as `#[cfg(kani)] mod verif_dyadic { ... }`;
// being a child module it sees the private fields.  Every harness is loop-free over a fully
// symbolic (flags, exp, val) triple: a complete proof for all 2^64 mantissas and every exponent in
// the supported range, not a bounded check.
//
// Contract vocabulary (executable):
//   wf(d)        representation invariant
//   W            256-bit naturals (two u128 limbs) so that aligned sums are computed without loss
//   dval(d) = (-1)^sign * val * 2^exp ; never materialised: equalities are stated on aligned integers
use super::*;

/// supported exponent range: keeps `exp +- 64` and `exp + exp` inside i32
const EMAX: i32 = 1 << 29;

fn wf(d: &Dyadic) -> bool {
    d.flags & !(SIGN | APPROX) == 0
        && if d.val == 0 { d.exp == 0 && d.flags & SIGN == 0 } else { d.val >> 63 == 1 }
}
fn in_range(d: &Dyadic) -> bool {
    d.exp > -EMAX && d.exp < EMAX
}
fn any_dyadic() -> Dyadic {
    let d = Dyadic { flags: kani::any(), exp: kani::any(), val: kani::any() };
    kani::assume(wf(&d) && in_range(&d));
    d
}
fn sgn(d: &Dyadic) -> bool { d.flags & SIGN != 0 }
fn eabs(d: &Dyadic) -> i64 { (d.exp as i64).abs() }
fn apx(d: &Dyadic) -> bool { d.flags & APPROX != 0 }

#[derive(Clone, Copy, PartialEq, Eq)]
struct W { hi: u128, lo: u128 }
const W0: W = W { hi: 0, lo: 0 };
/// v * 2^s for s <= 191
fn w_shl(v: u64, s: u32) -> W {
    let v = v as u128;
    if s == 0 { W { hi: 0, lo: v } }
    else if s < 128 { W { hi: v >> (128 - s), lo: v << s } }
    else { W { hi: v << (s - 128), lo: 0 } }
}
fn w_add(a: W, b: W) -> W { let (lo, c) = a.lo.overflowing_add(b.lo); W { hi: a.hi + b.hi + c as u128, lo } }
/// a - b for a >= b
fn w_sub(a: W, b: W) -> W { let (lo, c) = a.lo.overflowing_sub(b.lo); W { hi: a.hi - b.hi - c as u128, lo } }
fn w_lt(a: W, b: W) -> bool { a.hi < b.hi || (a.hi == b.hi && a.lo < b.lo) }

/// does the (wf) dyadic r have magnitude  m * 2^e  and, when non-zero, the sign `neg`?
fn mag_is(r: &Dyadic, m: W, e: i32, neg: bool) -> bool {
    if m == W0 { return r.val == 0; }
    if r.val == 0 { return false; }
    if sgn(r) != neg { return false; }
    let k = r.exp as i64 - e as i64;
    if k >= 0 {
        k <= 191 && w_shl(r.val, k as u32) == m
    } else {
        k >= -63 && m.hi == 0 && m.lo < (1u128 << 64) && (m.lo << ((-k) as u32)) == r.val as u128
    }
}

/// exact sum of two wf dyadics as (magnitude at scale e, sign), or None when the exponents are more
/// than 64 apart and both are non-zero (then the sum needs more than 64 significant bits: it is
/// representable by no Dyadic, so an honest result must be flagged)
fn exact_sum(a: &Dyadic, b: &Dyadic) -> Option<(W, i32, bool)> {
    if a.val == 0 { return Some((w_shl(b.val, 0), b.exp, sgn(b))); }
    if b.val == 0 { return Some((w_shl(a.val, 0), a.exp, sgn(a))); }
    let e = if a.exp < b.exp { a.exp } else { b.exp };
    let da = (a.exp as i64 - e as i64) as u64;
    let db = (b.exp as i64 - e as i64) as u64;
    if da > 64 || db > 64 { return None; }
    let wa = w_shl(a.val, da as u32);
    let wb = w_shl(b.val, db as u32);
    if sgn(a) == sgn(b) { Some((w_add(wa, wb), e, sgn(a))) }
    else if w_lt(wa, wb) { Some((w_sub(wb, wa), e, sgn(b))) }
    else { Some((w_sub(wa, wb), e, sgn(a))) }
}

// ---------------------------------------------------------------------------------------------
// constructors and the representation invariant

#[kani::proof]
fn new_exact_wf() {
    let v: i64 = kani::any();
    let e: i32 = kani::any();
    kani::assume(v > i64::MIN);            // -i64::MIN overflows (panics in debug builds): outside the supported range
    kani::assume(e > -EMAX && e < EMAX);
    let d = Dyadic::new(v, e);
    assert!(wf(&d), "new: result satisfies the representation invariant");
    assert!(!apx(&d), "new: result is not flagged approximate");
    assert!(mag_is(&d, w_shl(v.unsigned_abs(), 0), e, v < 0), "new: value is exactly val * 2^exp");
    assert!(eabs(&d) <= (e as i64).abs() + 64 && (v != 0 || d.exp == 0), "new: |exp| grows by at most 64 (normalisation), zero has exponent 0");
    kani::cover!(v < 0 && d.val != 0);
    kani::cover!(v == 0);
}

#[kani::proof]
fn from_i64_exact() {
    let v: i64 = kani::any();
    kani::assume(v > i64::MIN);
    let d: Dyadic = v.into();
    assert!(wf(&d) && !apx(&d), "From<i64>: wf and exact");
    assert!(mag_is(&d, w_shl(v.unsigned_abs(), 0), 0, v < 0), "From<i64>: value is exactly the integer");
    assert!(eabs(&d) <= 64, "From<i64>: |exp| <= 64");
    kani::cover!(v == i64::MAX);
}

#[kani::proof]
fn from_f64_faithful() {
    let f: f64 = kani::any();
    kani::assume(f.is_finite());
    let d: Dyadic = f.into();
    let bits = f.to_bits();
    let frac = bits & ((1u64 << 52) - 1);
    let ex = ((bits >> 52) & 0x7ff) as i32;
    let (m, e) = if ex == 0 { (frac, -1074) } else { (frac | (1u64 << 52), ex - 1075) };
    assert!(wf(&d), "From<f64>: wf");
    assert!(apx(&d), "From<f64>: flagged approximate");
    assert!(mag_is(&d, w_shl(m, 0), e, bits >> 63 == 1), "From<f64>: value equals the float exactly");
    kani::cover!(ex == 0 && frac != 0);
    kani::cover!(f < 0.0);
}

#[kani::proof]
fn zero_is_zero() {
    let z = Dyadic::zero();
    assert!(wf(&z) && !apx(&z) && z.val == 0, "zero(): exact zero");
    let d = any_dyadic();
    assert!(d.is_zero() == (d.val == 0), "is_zero agrees with the value");
}

#[kani::proof]
fn flag_accessors() {
    let mut d = any_dyadic();
    let d0 = d;
    assert!(d.sign() == sgn(&d) && d.approx() == apx(&d), "sign()/approx() read the flags");
    let b: bool = kani::any();
    d.set_approx(b);
    assert!(wf(&d) && d.approx() == b && d.val == d0.val && d.exp == d0.exp && sgn(&d) == sgn(&d0),
        "set_approx changes only the approx flag");
    let a = d0.abs();
    assert!(wf(&a) && !sgn(&a) && a.val == d0.val && a.exp == d0.exp && apx(&a) == apx(&d0), "abs clears only the sign");
}

// ---------------------------------------------------------------------------------------------
// negation

#[kani::proof]
fn neg_contract() {
    let a = any_dyadic();
    let r = -a;
    assert!(wf(&r), "neg: wf");
    assert!(r.val == a.val && r.exp == a.exp && apx(&r) == apx(&a), "neg: magnitude and approx flag unchanged");
    assert!(a.val == 0 || sgn(&r) != sgn(&a), "neg: sign flipped on non-zero values");
    assert!(-r == a, "neg: involution");
    kani::cover!(a.val == 0);
    kani::cover!(sgn(&a));
}

// ---------------------------------------------------------------------------------------------
// addition / subtraction: wf, sticky flag, exact-or-flagged

fn add_obligations(a: &Dyadic, b: &Dyadic, r: &Dyadic) {
    assert!(wf(r), "add: result satisfies the representation invariant");
    let m = if eabs(a) > eabs(b) { eabs(a) } else { eabs(b) };
    assert!(eabs(r) <= m + 64, "add: |exp| of the result is at most 64 above the larger operand exponent (exponent-range bookkeeping used by the Scalar4 unit)");
    assert!(!(apx(a) || apx(b)) || apx(r), "add: an approximate operand gives a flagged result");
    if !apx(r) {
        match exact_sum(a, b) {
            None => assert!(false, "add: exponents more than 64 apart cannot give an exact result, flag required"),
            Some((m, e, neg)) => assert!(mag_is(r, m, e, neg), "add: unflagged result equals the exact sum"),
        }
    }
}

#[kani::proof]
fn add_contract() {
    let a = any_dyadic();
    let b = any_dyadic();
    let r = a + b;
    add_obligations(&a, &b, &r);
    kani::cover!(!apx(&r) && a.val != 0 && b.val != 0 && a.exp != b.exp);
    kani::cover!(!apx(&r) && sgn(&a) != sgn(&b) && a.val != 0 && b.val != 0);
    kani::cover!(apx(&r) && !apx(&a) && !apx(&b));
    kani::cover!(a.val == 0 && apx(&a));
}

#[kani::proof]
fn add_error_bound() {
    // a flagged result is still within one unit of the larger operand's last place of the exact sum
    let a = any_dyadic();
    let b = any_dyadic();
    kani::assume(a.val != 0 && b.val != 0);
    let r = a + b;
    if let Some((m, e, neg)) = exact_sum(&a, &b) {
        // compare r with m at scale e; tolerance 2^(max(ea,eb)+1)
        let emax = if a.exp > b.exp { a.exp } else { b.exp };
        let tol = w_shl(1, (emax as i64 + 1 - e as i64) as u32);
        // r as magnitude at scale e (r.exp >= e - 64 always holds for a sane result; otherwise fail)
        let k = r.exp as i64 - e as i64;
        if r.val == 0 {
            assert!(w_lt(m, tol), "add: a zero result is within tolerance of the exact sum");
        } else {
            assert!(k >= -64 && k <= 130, "add: result exponent is in the plausible window");
            assert!(sgn(&r) == neg || w_lt(m, tol), "add: sign of the result matches the exact sum");
            if k >= 0 {
                let rm = w_shl(r.val, k as u32);
                let diff = if w_lt(rm, m) { w_sub(m, rm) } else { w_sub(rm, m) };
                assert!(w_lt(diff, tol), "add: |result - exact sum| < 2 ulp of the larger operand");
            } else {
                // scale m up instead: m < 2^64 here or the result is off by more than tolerance
                assert!(m.hi == 0 && m.lo < (1u128 << 65), "add: magnitude consistent with a small result exponent");
            }
        }
    }
    kani::cover!(apx(&r) && !apx(&a) && !apx(&b));
}

#[kani::proof]
fn sub_contract() {
    let a = any_dyadic();
    let b = any_dyadic();
    let r = a - b;
    let nb = Dyadic { flags: if b.val != 0 { b.flags ^ SIGN } else { b.flags }, exp: b.exp, val: b.val };
    add_obligations(&a, &nb, &r);
    kani::cover!(!apx(&r) && a.val != 0 && b.val != 0);
}

#[kani::proof]
fn add_assign_sub_assign_agree() {
    let a = any_dyadic();
    let b = any_dyadic();
    let mut c = a;
    c += b;
    assert!(c == a + b, "+= agrees with +");
    let mut d = a;
    d -= b;
    assert!(d == a - b, "-= agrees with -");
}

// ---------------------------------------------------------------------------------------------
// multiplication

#[kani::proof]
fn mul_contract() {
    let a = any_dyadic();
    let b = any_dyadic();
    let r = a * b;
    assert!(wf(&r), "mul: result satisfies the representation invariant");
    assert!(eabs(&r) <= eabs(&a) + eabs(&b) + 64, "mul: |exp| of the result is at most |ea| + |eb| + 64 (exponent-range bookkeeping used by the Scalar4 unit)");
    if !apx(&r) {
        let exact_zero_a = a.val == 0 && !apx(&a);
        let exact_zero_b = b.val == 0 && !apx(&b);
        assert!((!apx(&a) && !apx(&b)) || exact_zero_a || exact_zero_b,
            "mul: an unflagged result needs unflagged operands (or an exact zero factor)");
        let p = (a.val as u128) * (b.val as u128);
        let m = W { hi: 0, lo: p };
        // a zero operand has exponent 0, the product magnitude is 0 in that case
        let e = if a.val == 0 || b.val == 0 { 0 } else { a.exp + b.exp };
        assert!(mag_is(&r, m, e, sgn(&a) != sgn(&b)), "mul: unflagged result equals the exact product");
    }
    kani::cover!(!apx(&r) && a.val != 0 && b.val != 0);
    kani::cover!(apx(&r) && !apx(&a) && !apx(&b));
    kani::cover!(a.val == 0 && apx(&b));
}

#[kani::proof]
fn mul_error_bound() {
    let a = any_dyadic();
    let b = any_dyadic();
    kani::assume(a.val != 0 && b.val != 0);
    let r = a * b;
    let p = (a.val as u128) * (b.val as u128);
    let k = r.exp as i64 - (a.exp as i64 + b.exp as i64);
    assert!(k >= 62 && k <= 64, "mul: result exponent is the product's leading position");
    assert!(sgn(&r) == (sgn(&a) != sgn(&b)), "mul: sign is the xor of the signs");
    let rm = (r.val as u128) << (k as u32 - 1) ;   // r.val * 2^(k-1) < 2^127
    let half = p >> 1;
    let diff = if rm > half { rm - half } else { half - rm };
    assert!(diff <= (1u128 << (k as u32 - 1)), "mul: |result - exact product| <= 1 ulp");
    let mut c = a;
    c *= b;
    assert!(c == r, "*= agrees with *");
}

// ---------------------------------------------------------------------------------------------
// order

fn spec_cmp(a: &Dyadic, b: &Dyadic) -> Ordering {
    // order of the reals (-1)^s * val * 2^exp for normalised mantissas (val in [2^63, 2^64) or 0)
    let mag = |x: &Dyadic, y: &Dyadic| -> Ordering {
        if x.val == 0 || y.val == 0 { x.val.cmp(&y.val) }
        else if x.exp != y.exp { x.exp.cmp(&y.exp) }
        else { x.val.cmp(&y.val) }
    };
    match (sgn(a), sgn(b)) {
        (false, false) => mag(a, b),
        (true, true) => mag(b, a),
        (false, true) => Ordering::Greater,   // b < 0 <= a
        (true, false) => Ordering::Less,
    }
}

#[kani::proof]
fn cmp_is_real_order() {
    let a = any_dyadic();
    let b = any_dyadic();
    assert!(a.cmp(&b) == spec_cmp(&a, &b), "cmp: agrees with the order of the reals");
    assert!(a.partial_cmp(&b) == Some(spec_cmp(&a, &b)), "partial_cmp: agrees with cmp");
    kani::cover!(a.val == 0 && b.exp < 0 && b.val != 0);
    kani::cover!(sgn(&a) && sgn(&b));
}

#[kani::proof]
fn cmp_matches_exact_difference() {
    // independent oracle: sign of the exactly computed difference (when the exponents are close enough)
    let a = any_dyadic();
    let b = any_dyadic();
    let nb = Dyadic { flags: if b.val != 0 { b.flags ^ SIGN } else { b.flags }, exp: b.exp, val: b.val };
    if let Some((m, _e, neg)) = exact_sum(&a, &nb) {
        let want = if m == W0 { Ordering::Equal } else if neg { Ordering::Less } else { Ordering::Greater };
        assert!(a.cmp(&b) == want, "cmp: equals the sign of the exact difference a - b");
    }
    kani::cover!(a.val != 0 && b.val != 0 && a.exp != b.exp);
}

#[kani::proof]
fn abs_diff_eq_contract() {
    let a = any_dyadic();
    let b = any_dyadic();
    let eps = any_dyadic();
    let d = a - b;
    kani::assume(!apx(&d));
    let ad = Dyadic { flags: d.flags & !SIGN, exp: d.exp, val: d.val };
    let want = spec_cmp(&ad, &eps) == Ordering::Less;
    assert!(a.abs_diff_eq(&b, eps) == want, "abs_diff_eq: true exactly when |a - b| < eps (a - b exact)");
    kani::cover!(want && d.val != 0);
    kani::cover!(a == b && !sgn(&eps) && eps.val != 0 && eps.exp < -64);
}

// ---------------------------------------------------------------------------------------------
// signed views

#[kani::proof]
fn val_and_exp_contract() {
    let d = any_dyadic();
    //@KNOWN-FINDING-CARVEOUT val_and_exp
    let (v, e) = d.val_and_exp();
    if d.val == 0 {
        assert!(v == 0 && e == 0, "val_and_exp: zero is (0, 0)");
    } else {
        assert!(v & 1 == 1, "val_and_exp: reduced mantissa is odd");
        assert!((v < 0) == sgn(&d), "val_and_exp: sign of the mantissa is the sign of the value");
        let k = e as i64 - d.exp as i64;
        assert!(k >= 0 && k <= 63 && ((v.unsigned_abs() as u128) << (k as u32)) == d.val as u128,
            "val_and_exp: v * 2^e equals the value");
    }
    assert!(d.val() == v && d.exp() == e, "val()/exp() agree with val_and_exp()");
    kani::cover!(d.val != 0 && sgn(&d));
}

#[kani::proof]
fn known_finding_val_and_exp_64bit() {
    // F8 (known finding): a 64-significant-bit mantissa does not fit the i64 view
    let d = any_dyadic();
    kani::assume(d.val != 0 && d.val & 1 == 1);
    let (v, _e) = d.val_and_exp();
    kani::cover!((v < 0) != sgn(&d));      // SATISFIED = the defect still reproduces
    kani::cover!(v.unsigned_abs() != d.val && !sgn(&d));
}
