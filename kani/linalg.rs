// Kani harness for Mat2::build of quizx/src/linalg.rs (property C17).  Appended by lib/kunit.py as
// `#[cfg(kani)] mod verif_linalg { ... }`.  BOUNDED: all shapes up to 3 x 3 with an arbitrary predicate (a symbolic
// truth table); it backs the ASSUMED Verus contract of `build` in units/linalgops.vspec (iterator map/collect is outside
// the Verus subset).
use super::*;

#[kani::proof]
#[kani::unwind(5)]
fn build_contract_upto_3x3() {
    let rows: usize = kani::any();
    let cols: usize = kani::any();
    kani::assume(rows <= 3 && cols <= 3);
    let t: [[bool; 3]; 3] = kani::any();
    let m = Mat2::build(rows, cols, |x, y| t[x][y]);
    assert!(m.d.len() == rows, "build: number of rows");
    let mut i = 0;
    while i < rows {
        assert!(m.d[i].len() == cols, "build: every row has `cols` entries");
        let mut j = 0;
        while j < cols {
            assert!(m.d[i][j] == if t[i][j] { 1 } else { 0 }, "build: entry (i, j) is 1 iff f(i, j)");
            j += 1;
        }
        i += 1;
    }
    kani::cover!(rows == 3 && cols == 3);
    kani::cover!(rows == 0);
    kani::cover!(rows == 2 && cols == 0);
}
