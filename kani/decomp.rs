// Kani contract harnesses for the DecompNode helpers of quizx/src/rankwidth/decomp_tree.rs (property C18).
// Appended by lib/kunit.py as `#[cfg(kani)] mod verif_decomp { ... }`.  Nodes are fixed-size arrays (1 or 3 neighbours),
// all loops have at most 3 iterations (`unwind(4)` with unwinding assertions): complete over all symbolic nodes.
use super::*;

fn any_node() -> DecompNode {
    if kani::any() { DecompNode::Leaf([kani::any()], kani::any()) } else { DecompNode::Interior([kani::any(), kani::any(), kani::any()]) }
}
fn nhd_of(n: &DecompNode) -> ([usize; 3], usize) {
    match n { DecompNode::Leaf([a], _) => ([*a, 0, 0], 1), DecompNode::Interior(x) => (*x, 3) }
}
fn same_kind(a: &DecompNode, b: &DecompNode) -> bool {
    match (a, b) { (DecompNode::Leaf(_, v), DecompNode::Leaf(_, w)) => v == w, (DecompNode::Interior(_), DecompNode::Interior(_)) => true, _ => false }
}

#[kani::proof]
#[kani::unwind(4)]
fn replace_neighbor_contract() {
    let n0 = any_node();
    let (s, len) = nhd_of(&n0);
    let old: usize = kani::any();
    let new: usize = kani::any();
    // precondition: old occurs
    let mut k = 3;
    if len >= 3 && s[2] == old { k = 2; }
    if len >= 2 && s[1] == old { k = 1; }
    if s[0] == old { k = 0; }
    kani::assume(k < len);
    let mut n = n0;
    n.replace_neighbor(old, new);
    let (t, len2) = nhd_of(&n);
    assert!(same_kind(&n, &n0) && len2 == len, "replace_neighbor: constructor and leaf label unchanged");
    assert!((0..3).all(|i| i >= len || t[i] == if i == k { new } else { s[i] }), "replace_neighbor: exactly the first occurrence of `old` becomes `new`");
    kani::cover!(len == 3 && k == 2);
    kani::cover!(len == 1);
    kani::cover!(len == 3 && s[0] == old && s[1] == old);
}

#[kani::proof]
#[kani::unwind(4)]
fn other_neighbor_contract() {
    let n = any_node();
    let (s, len) = nhd_of(&n);
    let ns: [usize; 2] = kani::any();
    let m: usize = kani::any();
    kani::assume(m == 1 || m == 2);
    let excl = &ns[..m];
    let inx = |x: usize| excl.contains(&x);
    // precondition: some neighbour is not excluded
    let mut k = 3;
    if len >= 3 && !inx(s[2]) { k = 2; }
    if len >= 2 && !inx(s[1]) { k = 1; }
    if !inx(s[0]) { k = 0; }
    kani::assume(k < len);
    let r = n.other_neighbor(excl);
    assert!(r == s[k], "other_neighbor: the first neighbour that is not in the excluded list");
    kani::cover!(k == 2);
    kani::cover!(len == 1);
}

#[kani::proof]
fn parent_and_kind_contract() {
    let p: usize = kani::any();
    let v: usize = kani::any();
    let l = DecompNode::Leaf([p], v);
    assert!(l.parent() == p && l.is_leaf() && !l.is_interior() && l.nhd().len() == 1 && l.nhd()[0] == p, "leaf: parent / kind / nhd");
    let (a, b, c): (usize, usize, usize) = (kani::any(), kani::any(), kani::any());
    let i = DecompNode::Interior([a, b, c]);
    assert!(!i.is_leaf() && i.is_interior() && i.nhd().len() == 3 && i.nhd()[0] == a && i.nhd()[1] == b && i.nhd()[2] == c, "interior: kind / nhd");
}
