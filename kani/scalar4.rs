// Kani contract harnesses for the loop-free / fixed-length parts of quizx/src/scalar.rs (property C07).
// Appended by lib/kunit.py to a scratch copy of quizx/src/scalar/dyadic.rs as `#[cfg(kani)] mod verif_scalar4 { ... }`:
// a descendant of both `scalar` and `scalar::dyadic`, so it sees the private fields of Scalar4 and of Dyadic.
// All loops are over the four coefficients (`unwind(5)`, unwinding assertions on): complete, not bounded.
use super::*;
use crate::phase::Phase;
use crate::scalar::{FromPhase, Scalar4, Sqrt2};
use num::{One, Rational64, Zero};

const EMAX: i32 = 1 << 29;
const TOP: u64 = 1 << 63;

fn wf(d: &Dyadic) -> bool {
    d.flags & !(SIGN | APPROX) == 0
        && if d.val == 0 { d.exp == 0 && d.flags & SIGN == 0 } else { d.val >> 63 == 1 }
}
fn any_dyadic() -> Dyadic {
    let d = Dyadic { flags: kani::any(), exp: kani::any(), val: kani::any() };
    kani::assume(wf(&d) && d.exp > -EMAX && d.exp < EMAX);
    d
}
fn any_exact_dyadic() -> Dyadic {
    let d = any_dyadic();
    kani::assume(d.flags & APPROX == 0);
    d
}
fn sgn(d: &Dyadic) -> bool { d.flags & SIGN != 0 }
/// +-2^e with an unflagged, normalised mantissa
fn pow2(neg: bool, e: i32) -> Dyadic { Dyadic { flags: if neg { SIGN } else { 0 }, exp: e - 63, val: TOP } }
fn zero() -> Dyadic { Dyadic { flags: 0, exp: 0, val: 0 } }

// ---------------------------------------------------------------------------------------------
// zero / one tests, coefficient count, flag accessors

#[kani::proof]
#[kani::unwind(5)]
fn zero_one_tests() {
    let s = Scalar4([any_dyadic(), any_dyadic(), any_dyadic(), any_dyadic()]);
    let nz = |d: &Dyadic| d.val != 0;
    assert!(s.is_zero() == (!nz(&s.0[0]) && !nz(&s.0[1]) && !nz(&s.0[2]) && !nz(&s.0[3])), "is_zero: all four coefficients are zero");
    let one = Scalar4([pow2(false, 0), zero(), zero(), zero()]);
    assert!(Scalar4::one() == one, "one(): exactly [1, 0, 0, 0]");
    assert!(s.is_one() == (s.0[0] == pow2(false, 0) && s.0[1] == zero() && s.0[2] == zero() && s.0[3] == zero()),
        "is_one: the exact, unflagged scalar 1");
    assert!(Scalar4::zero() == Scalar4([zero(), zero(), zero(), zero()]), "zero(): exactly [0, 0, 0, 0]");
    let any = s.0[0].flags & APPROX != 0 || s.0[1].flags & APPROX != 0 || s.0[2].flags & APPROX != 0 || s.0[3].flags & APPROX != 0;
    assert!(s.approx() == any, "approx(): some coefficient is flagged");
    let b: bool = kani::any();
    let mut t = s;
    t.set_approx(b);
    assert!((0..4).all(|k| (t.0[k].flags & APPROX != 0) == b && t.0[k].val == s.0[k].val && t.0[k].exp == s.0[k].exp && sgn(&t.0[k]) == sgn(&s.0[k])),
        "set_approx: sets the flag of every coefficient and nothing else");
    kani::cover!(s.is_zero());
    kani::cover!(s.is_one());
    kani::cover!(any && !b);
}

// ---------------------------------------------------------------------------------------------
// phases k*pi/4  ->  omega^k

#[kani::proof]
#[kani::unwind(5)]
fn from_phase_pi4_is_omega_power() {
    // canonical phases with denominator 1, 2 or 4 (the representation invariant proved in unit phase)
    let n: i64 = kani::any();
    let d: i64 = kani::any();
    kani::assume(d == 1 || d == 2 || d == 4);
    kani::assume(-d < n && n <= d);
    kani::assume(d == 1 || n % 2 != 0);          // reduced
    let ph = Phase::new(Rational64::new_raw(n, d));
    let s = Scalar4::from_phase(ph);
    // phase = n/d = k/4 with k = n * (4/d)  (mod 8)
    let k = (n * (4 / d)).rem_euclid(8) as usize;
    let mut want = [zero(), zero(), zero(), zero()];
    want[k % 4] = pow2(k >= 4, 0);               // omega^(k) = -omega^(k-4)
    assert!(s == Scalar4(want), "from_phase: e^(i pi k/4) is the exact coefficient vector of omega^k");
    let s2: Scalar4 = ph.into();
    assert!(s2 == s, "From<Phase> agrees with from_phase");
    kani::cover!(k == 7);
    kani::cover!(k == 4);
    kani::cover!(d == 2 && n == -1);
}

#[kani::proof]
#[kani::unwind(5)]
fn minus_one_and_one_plus_phase() {
    assert!(Scalar4::minus_one() == Scalar4([pow2(true, 0), zero(), zero(), zero()]), "minus_one(): exactly [-1, 0, 0, 0]");
    // 1 + e^(i pi) = 0 and 1 + e^0 = 2, exactly
    let z = Scalar4::one_plus_phase(Phase::new(Rational64::new_raw(1, 1)));
    assert!(z == Scalar4::zero(), "one_plus_phase(pi) is the exact zero");
    let two = Scalar4::one_plus_phase(Phase::new(Rational64::new_raw(0, 1)));
    assert!(two == Scalar4([pow2(false, 1), zero(), zero(), zero()]), "one_plus_phase(0) is the exact 2");
}

// ---------------------------------------------------------------------------------------------
// recognition of  e^(i pi k/4) * sqrt(2)^p

/// structural oracle, written from the mathematics (no multiplication involved):
///   one non-zero coefficient  +-2^m at index i            ->  omega^i (or -omega^i) * 2^m         = omega^k * sqrt2^(2m)
///   two non-zero coefficients of equal magnitude 2^m at indices {0,2} or {1,3}
///                                                         ->  2^m (omega^(k+1) + omega^(k-1))     = omega^k * sqrt2^(2m+1)
fn oracle(s: &Scalar4) -> Option<(usize, i32)> {
    let c = &s.0;
    let nz = [c[0].val != 0, c[1].val != 0, c[2].val != 0, c[3].val != 0];
    let n = nz[0] as u8 + nz[1] as u8 + nz[2] as u8 + nz[3] as u8;
    if n == 1 {
        let i = if nz[0] { 0 } else if nz[1] { 1 } else if nz[2] { 2 } else { 3 };
        if c[i].val != TOP { return None; }
        let m = c[i].exp + 63;
        Some(((if sgn(&c[i]) { i + 4 } else { i }), 2 * m))
    } else if n == 2 {
        let (i, j) = if nz[0] && nz[2] { (0, 2) } else if nz[1] && nz[3] { (1, 3) } else { return None; };
        if c[i].val != TOP || c[j].val != TOP || c[i].exp != c[j].exp { return None; }
        let m = c[i].exp + 63;
        // (sign of c[i], sign of c[j]) with i < j
        let k = match (i, sgn(&c[i]), sgn(&c[j])) {
            (1, false, true) => 0,   //  w - w^3
            (0, false, false) => 1,  //  1 + w^2
            (1, false, false) => 2,  //  w + w^3
            (0, true, false) => 3,   // -1 + w^2
            (1, true, false) => 4,   // -w + w^3
            (0, true, true) => 5,    // -1 - w^2
            (1, true, true) => 6,    // -w - w^3
            _ => 7,                  //  1 - w^2
        };
        Some((k, 2 * m + 1))
    } else {
        None
    }
}

#[kani::proof]
#[kani::unwind(5)]
fn exact_phase_recognition() {
    let s = Scalar4([any_exact_dyadic(), any_exact_dyadic(), any_exact_dyadic(), any_exact_dyadic()]);
    // known finding F8 (Dyadic::val() on 64-significant-bit mantissas) is carved out here as well
    //@KNOWN-FINDING-CARVEOUT-ALL val_and_exp s.0[0] s.0[1] s.0[2] s.0[3]
    let got = s.exact_phase_and_sqrt2_pow();
    let want = oracle(&s).map(|(k, p)| (Phase::new(Rational64::new(k as i64, 4)), p));
    assert!(got == want, "exact_phase_and_sqrt2_pow: Some((k/4, p)) exactly for the scalars omega^k * sqrt2^p, None otherwise");
    kani::cover!(matches!(oracle(&s), Some((5, _))));
    kani::cover!(matches!(oracle(&s), Some((2, _))));
    kani::cover!(oracle(&s).is_none() && s.0[0].val != 0 && s.0[2].val != 0 && s.0[1].val == 0 && s.0[3].val == 0);
}

/// the branch without multiplication: at most one non-zero coefficient (complete for that family)
#[kani::proof]
#[kani::unwind(5)]
fn exact_phase_recognition_one_coeff() {
    let i: usize = kani::any();
    kani::assume(i < 4);
    let d = any_exact_dyadic();
    //@KNOWN-FINDING-CARVEOUT val_and_exp
    let mut c = [zero(), zero(), zero(), zero()];
    c[i] = d;
    let s = Scalar4(c);
    let got = s.exact_phase_and_sqrt2_pow();
    let want = oracle(&s).map(|(k, p)| (Phase::new(Rational64::new(k as i64, 4)), p));
    assert!(got == want, "exact_phase_and_sqrt2_pow (one coefficient): +-2^m omega^i is recognised with k = i or i + 4 and p = 2m, anything else is None");
    kani::cover!(want.is_some() && sgn(&d));
    kani::cover!(want.is_none());
}

/// cheaper stand-in for the two-coefficient branch (BOUNDED: mantissas in {0, 2^63}, exponents in {e, e+1} for one
/// symbolic e in a window of 8); the full-width harness `exact_phase_recognition` runs in the thorough tier
#[kani::proof]
#[kani::unwind(5)]
fn exact_phase_recognition_pow2_coeffs() {
    let e: i32 = kani::any();
    kani::assume(e >= -67 && e <= -60);
    let mut c = [zero(), zero(), zero(), zero()];
    for k in 0..4 {
        if kani::any() {
            c[k] = Dyadic { flags: if kani::any() { SIGN } else { 0 }, exp: if kani::any() { e } else { e + 1 }, val: TOP };
        }
    }
    let s = Scalar4(c);
    kani::assume(!s.is_zero());
    let got = s.exact_phase_and_sqrt2_pow();
    let want = oracle(&s).map(|(k, p)| (Phase::new(Rational64::new(k as i64, 4)), p));
    assert!(got == want, "exact_phase_and_sqrt2_pow (power-of-two coefficients): Some((k/4, p)) exactly for omega^k * sqrt2^p, None otherwise");
    kani::cover!(matches!(oracle(&s), Some((5, _))));
    kani::cover!(matches!(oracle(&s), Some((2, _))));
    kani::cover!(oracle(&s).is_none() && s.0[0].val != 0 && s.0[2].val != 0 && s.0[1].val == 0 && s.0[3].val == 0);
}
